#!/bin/sh
# ./run_all.sh [quick|thorough] [--no-evidence]   : every check in turn, one summary line each; exit 1 if any check did not hold
cd "$(dirname "$0")" || exit 2
tier=${1:-quick}; shift
bad=0
for i in 01 02 03 04 05 06 07 08 09 10 11 12 13 14 15 16 17 18 19 20; do
  start=$(date +%s)
  out=$(./check C$i --tier "$tier" "$@" 2>&1); code=$?
  end=$(date +%s)
  echo "C$i exit=$code $((end-start))s $(echo "$out" | grep -E '^(HELD|VIOLATION|INCONCLUSIVE|KNOWN-FINDING)' | head -3 | tr '\n' ' ' | cut -c1-300)"
  [ $code -ne 0 ] && bad=1
done
exit $bad
