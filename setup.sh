#!/bin/sh
# Offline setup: nothing to build or install (the framework is stdlib-only and runs on /venv/bin/python).
# Validates the trusted base: every reference model must pass its self-test.
cd "$(dirname "$0")" || exit 2
export PYTHONHASHSEED=0 PYTHONDONTWRITEBYTECODE=1 PYTHONWARNINGS=ignore PYTHONPATH="$(pwd)"
mkdir -p evidence replays
exec /venv/bin/python -B -m vmon.selfcheck
