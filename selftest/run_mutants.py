#!/venv/bin/python
"""
Noise on broken code: prove that each check fires on realistic property-breaking changes.

  selftest/run_mutants.py [--only C04] [--tier quick] [--keep] [--jobs N] [names...]

For every patch selftest/mutants/<Cxx>/<name>.diff (and every seeded/<name>/patch.diff with a meta.json):
  1. copy /repo's working tree (cardutil/, tests/, setup.cfg) to a scratch directory under /tmp,
  2. apply the patch there (never in /repo),
  3. run the repository's own 116 tests on the copy - a mutant that fails them is not "realistic": reported as
     UNREALISTIC and skipped,
  4. run the property's check with VERIF_REPO pointing at the copy and require exit 1 with a VIOLATION line
     (patches named *.equiv.diff are behaviour-preserving and must leave the check silent: exit 0),
  5. delete the copy.
Exit 0 if every mutant behaved as required.
"""
import argparse
import concurrent.futures
import json
import os
import shutil
import subprocess
import sys
import tempfile

HERE = os.path.dirname(os.path.abspath(__file__))
VERIF = os.path.dirname(HERE)
REPO = '/repo'
PY = '/venv/bin/python'


# which checks can be reached from which source file (used for the property-preserving changes under mutants/PRESERVE)
TOUCHES = {
    'cardutil/iso8583.py': 'C01 C02 C06 C07 C08 C10 C12 C16 C19 C20',
    'cardutil/mciipm.py': 'C03 C04 C05 C06 C07 C09 C10 C11 C17 C18 C19 C20',
    'cardutil/card.py': 'C15 C16',
    'cardutil/pinblock.py': 'C13 C14',
    'cardutil/key.py': 'C14',
    'cardutil/config.py': 'C01 C02 C06 C08 C17 C18 C20',
    'cardutil/__init__.py': 'C07 C09 C10',
    'cardutil/cli/': 'C07 C10 C18 C19 C20',
}


def props_touched(patch):
    props = set()
    with open(patch) as f:
        for ln in f:
            if ln.startswith('+++ b/'):
                path = ln[6:].split()[0]
                for k, v in TOUCHES.items():
                    if path == k or (k.endswith('/') and path.startswith(k)):
                        props |= set(v.split())
    return sorted(props) or ['C%02d' % k for k in range(1, 21)]


def discover(only):
    out = []
    mroot = os.path.join(HERE, 'mutants')
    for prop in sorted(os.listdir(mroot)) if os.path.isdir(mroot) else []:
        d = os.path.join(mroot, prop)
        if not os.path.isdir(d):
            continue
        for fn in sorted(os.listdir(d)):
            if fn.endswith('.diff'):
                out.append({'name': '%s/%s' % (prop, fn[:-5]),
                            'props': props_touched(os.path.join(d, fn)) if prop == 'PRESERVE' else
                            [prop] if prop != 'ALL' else ['C%02d' % k for k in range(1, 21)],
                            'patch': os.path.join(d, fn),
                            'equiv': fn.endswith('.equiv.diff')})
    sroot = os.path.join(VERIF, 'seeded')
    for name in sorted(os.listdir(sroot)) if os.path.isdir(sroot) else []:
        meta = os.path.join(sroot, name, 'meta.json')
        patch = os.path.join(sroot, name, 'patch.diff')
        if os.path.exists(meta) and os.path.exists(patch):
            with open(meta) as f:
                m = json.load(f)
            props = m.get('detected_by') or [m['property']]
            out.append({'name': 'seeded/' + name, 'props': props, 'patch': patch, 'equiv': False})
    if only:
        out = [m for m in out if (set(m['props']) & set(only) and not m['name'].startswith('PRESERVE/')) or m['name'] in only
               or any(m['name'].endswith('/' + o) or m['name'].startswith(o + '/') for o in only)]
    return out


def run_one(m, tier, keep, skip_tests):
    scratch = tempfile.mkdtemp(prefix='cardutil-mutant-')
    res = {'name': m['name'], 'status': None, 'detail': ''}
    try:
        for item in ('cardutil', 'tests', 'setup.cfg', 'setup.py', 'README.rst'):
            src = os.path.join(REPO, item)
            if os.path.isdir(src):
                shutil.copytree(src, os.path.join(scratch, item), ignore=shutil.ignore_patterns('__pycache__'))
            elif os.path.exists(src):
                shutil.copy(src, scratch)
        p = subprocess.run(['patch', '-p1', '--no-backup-if-mismatch', '-i', m['patch']], cwd=scratch,
                           capture_output=True, text=True)
        if p.returncode != 0:
            res.update(status='PATCH-FAILED', detail=(p.stdout + p.stderr)[-400:])
            return res
        env = dict(os.environ, PYTHONDONTWRITEBYTECODE='1', TMPDIR=os.path.join(scratch, '.tmp'))   # the suite leaves files in TMPDIR
        os.makedirs(env['TMPDIR'], exist_ok=True)
        env.pop('CARDUTIL_VERIF', None)
        if not skip_tests:
            t = subprocess.run([PY, '-B', '-m', 'pytest', '-q', '-x', '-p', 'no:cacheprovider', '--timeout=900'],
                               cwd=scratch, capture_output=True, text=True, env=env, timeout=1800)
            if t.returncode != 0:
                res.update(status='UNREALISTIC', detail='repository tests fail on the mutant: ' + t.stdout[-300:])
                return res
        fired, outs = [], []
        for prop in m['props']:
            e = dict(os.environ, VERIF_REPO=scratch)
            c = subprocess.run([os.path.join(VERIF, 'check'), prop, '--tier', tier, '--no-evidence'],
                               capture_output=True, text=True, env=e, timeout=7200)
            has_line = any(ln.startswith('VIOLATION property=%s ' % prop) for ln in c.stdout.splitlines())
            outs.append('%s exit=%d %s' % (prop, c.returncode, ' | '.join(
                ln.strip() for ln in c.stdout.splitlines() if ln.startswith(('VIOLATION', 'INCONCLUSIVE', '  mech')))[:600]))
            if c.returncode == 1 and has_line:
                fired.append(prop)
            elif c.returncode not in (0, 1):
                outs.append(c.stdout[-600:] + c.stderr[-300:])
        if m['equiv']:
            res.update(status='OK-SILENT' if not fired and all(' exit=0' in o for o in outs) else 'FALSE-ALARM',
                       detail='; '.join(outs))
        else:
            res.update(status='CAUGHT' if fired else 'MISSED', detail='; '.join(outs))
        return res
    finally:
        if not keep:
            shutil.rmtree(scratch, ignore_errors=True)
        else:
            res['detail'] += ' [kept %s]' % scratch


def main():
    ap = argparse.ArgumentParser()
    ap.add_argument('names', nargs='*')
    ap.add_argument('--only', action='append', default=[])
    ap.add_argument('--tier', default='quick')
    ap.add_argument('--keep', action='store_true')
    ap.add_argument('--skip-tests', action='store_true')
    ap.add_argument('--jobs', type=int, default=2)
    ap.add_argument('--props', help='comma list: run these checks instead of the ones the mutant names')
    ap.add_argument('--within', help='comma list: of the checks each item names, run only those in this list')
    ap.add_argument('--results', help='write a markdown table of the outcomes here')
    args = ap.parse_args()
    muts = discover(args.only + args.names)
    if args.props:
        for m in muts:
            m['props'] = args.props.split(',')
    if args.within:
        keep = set(args.within.split(','))
        for m in muts:
            m['props'] = [x for x in m['props'] if x in keep]
        muts = [m for m in muts if m['props']]
    if not muts:
        print('no mutants selected')
        return 2
    bad = 0
    rows = []
    with concurrent.futures.ThreadPoolExecutor(args.jobs) as ex:
        for m, r in zip(muts, ex.map(lambda m: run_one(m, args.tier, args.keep, args.skip_tests), muts)):
            print('%-12s %-45s %s' % (r['status'], r['name'], r['detail'][:700]))
            sys.stdout.flush()
            rows.append((m, r))
            if r['status'] not in ('CAUGHT', 'OK-SILENT'):
                bad += 1
    if args.results:
        import re
        with open(args.results, 'w') as f:
            f.write('# Self-test results (%s tier)\n\nGenerated by `selftest/run_mutants.py --results`. CAUGHT = the check exited 1 with a VIOLATION '
                    'line on the changed copy; OK-SILENT = a behaviour/property-preserving change left the check silent (exit 0).\n\n'
                    '| change | checks run | outcome | mechanisms reported |\n|---|---|---|---|\n' % args.tier)
            for m, r in rows:
                mechs = sorted(set(re.findall(r'mechanism: (\S+)', r['detail'])))
                f.write('| %s | %s | %s | %s |\n' % (m['name'], ' '.join(m['props']), r['status'], '<br>'.join(mechs[:4]) or '-'))
            f.write('\n%d changes, %d not as required\n' % (len(muts), bad))
    print('%d mutants, %d not as required' % (len(muts), bad))
    return 1 if bad else 0


if __name__ == '__main__':
    sys.exit(main())
