#!/bin/sh
# selftest/mkmutant.sh <Cxx> <name> <file relative to /repo> <sed -E expression>
# Writes selftest/mutants/<Cxx>/<name>.diff (a/ b/ prefixes, apply with patch -p1) without touching /repo.
set -e
prop=$1; name=$2; f=$3; expr=$4
here=$(cd "$(dirname "$0")" && pwd)
d=$(mktemp -d)
mkdir -p "$d/a/$(dirname "$f")" "$d/b/$(dirname "$f")" "$here/mutants/$prop"
cp "/repo/$f" "$d/a/$f"; cp "/repo/$f" "$d/b/$f"
sed -i -E "$expr" "$d/b/$f"
(cd "$d" && diff -u "a/$f" "b/$f" > out.diff) || true
if [ ! -s "$d/out.diff" ]; then echo "EMPTY mutant $prop/$name" >&2; rm -rf "$d"; exit 1; fi
cp "$d/out.diff" "$here/mutants/$prop/$name.diff"
rm -rf "$d"
