#!/venv/bin/python
"""
selftest/merge_logs.py <out.md> <log> [<log> ...]
Build the results table from the console logs of several selftest/run_mutants.py runs (a later log overrides an earlier
one for the same item).  Used when the full regression was run in parts.
"""
import re
import sys


def main():
    out, logs = sys.argv[1], sys.argv[2:]
    rows = {}
    for path in logs:
        for ln in open(path, errors='replace'):
            m = re.match(r'^(CAUGHT|OK-SILENT|MISSED|FALSE-ALARM|UNREALISTIC|PATCH-FAILED|INCONCLUSIVE)\s+(\S+)\s+(.*)$', ln.rstrip('\n'))
            if not m:
                continue
            status, name, rest = m.groups()
            checks = sorted(set(re.findall(r'\b(C\d\d) exit=', rest)))
            mechs = sorted(set(re.findall(r'mechanism: (\S+)', rest)))
            rows[name] = (status, checks, mechs, path.rsplit('/', 1)[-1])
    order = sorted(rows, key=lambda n: (0 if n.startswith('ALL/') else 1 if re.match(r'C\d\d/', n) else 2 if n.startswith('PRESERVE/') else 3, n))
    bad = [n for n in order if rows[n][0] not in ('CAUGHT', 'OK-SILENT')]
    with open(out, 'w') as f:
        f.write('# Self-test results (quick tier)\n\nMerged by `selftest/merge_logs.py` from the console logs of `selftest/run_mutants.py` runs '
                '(the regression was run in parts). CAUGHT = the check exited 1 with a VIOLATION line on the changed copy; OK-SILENT = a '
                'behaviour/property-preserving change left every check it was run against silent (exit 0).\n\n')
        f.write('%d items: %d CAUGHT, %d OK-SILENT, %d not as required.\n\n' % (
            len(order), sum(rows[n][0] == 'CAUGHT' for n in order), sum(rows[n][0] == 'OK-SILENT' for n in order), len(bad)))
        f.write('| change | checks run | outcome | mechanisms reported |\n|---|---|---|---|\n')
        for n in order:
            status, checks, mechs, src = rows[n]
            f.write('| %s | %s | %s | %s |\n' % (n, ' '.join(checks), status, '<br>'.join(mechs) or '-'))
    print(len(order), 'items;', len(bad), 'not as required:', bad[:10])


main()
