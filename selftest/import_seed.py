#!/venv/bin/python
"""
selftest/import_seed.py <Cxx> <n> <slug> "<what it needs to manifest>" ["<what it breaks>"]
Validate a sub-agent's change /tmp/seed-<Cxx>/change<n>.diff + demo<n>.py in scratch copies of /repo (never in /repo):
  - the repository's tests pass with the change, - the demo exits 1 with the change, - the demo exits 0 without it.
If all hold, store it as /verif/seeded/<Cxx>-<slug>/{patch.diff, demo.py, meta.json}.
"""
import json
import os
import shutil
import subprocess
import sys
import tempfile

PY = '/venv/bin/python'


def scratch():
    d = tempfile.mkdtemp(prefix='cardutil-seed-')
    for item in ('cardutil', 'tests', 'setup.cfg', 'setup.py', 'README.rst'):
        src = os.path.join('/repo', item)
        if os.path.isdir(src):
            shutil.copytree(src, os.path.join(d, item), ignore=shutil.ignore_patterns('__pycache__'))
        else:
            shutil.copy(src, d)
    return d


def main():
    prop, n, slug, needs = sys.argv[1:5]
    breaks = sys.argv[5] if len(sys.argv) > 5 else ''
    src = os.environ.get('SEED_DIR') or '/tmp/seed-%s' % prop
    patch = os.path.join(src, 'change%s.diff' % n)
    demo = os.path.join(src, 'demo%s.py' % n)
    # demonstrations written against a scratch worktree assert they run from it: make that "the directory I am run from"
    import re
    with open(demo) as f:
        text = f.read()
    text2 = re.sub(r"'/tmp/w\d+-C\d\d/?'", 'os.getcwd()', text)
    if text2 != text:
        demo = os.path.join(tempfile.mkdtemp(prefix='cardutil-seed-demo-'), 'demo.py')
        with open(demo, 'w') as f:
            f.write(text2)
    env = dict(os.environ, PYTHONDONTWRITEBYTECODE='1')
    ran = []
    clean, changed = scratch(), scratch()
    try:
        p = subprocess.run(['patch', '-p1', '--no-backup-if-mismatch', '-i', patch], cwd=changed, capture_output=True, text=True)
        if p.returncode:
            print('PATCH FAILED', p.stdout, p.stderr)
            return 1
        t = subprocess.run([PY, '-B', '-m', 'pytest', '-q', '-p', 'no:cacheprovider', '--timeout=900'], cwd=changed, env=env,
                           capture_output=True, text=True, timeout=1800)
        tail = t.stdout.strip().splitlines()[-1] if t.stdout.strip() else ''
        ran.append({'cmd': 'pytest -q (changed tree)', 'exit': t.returncode, 'tail': tail})
        d1 = subprocess.run([PY, '-B', demo], cwd=changed, env=env, capture_output=True, text=True, timeout=600)
        ran.append({'cmd': 'demo (changed tree)', 'exit': d1.returncode, 'tail': (d1.stdout + d1.stderr).strip()[-300:]})
        d0 = subprocess.run([PY, '-B', demo], cwd=clean, env=env, capture_output=True, text=True, timeout=600)
        ran.append({'cmd': 'demo (unchanged tree)', 'exit': d0.returncode, 'tail': (d0.stdout + d0.stderr).strip()[-200:]})
        ok = t.returncode == 0 and d1.returncode == 1 and d0.returncode == 0
        for r in ran:
            print(r['cmd'], '->', r['exit'], '|', r['tail'][-160:].replace('\n', ' / '))
        if not ok:
            print('NOT CONFIRMED - not stored')
            return 1
        out = os.path.join('/verif/seeded', '%s-%s' % (prop, slug))
        os.makedirs(out, exist_ok=True)
        shutil.copy(patch, os.path.join(out, 'patch.diff'))
        shutil.copy(demo, os.path.join(out, 'demo.py'))
        head = subprocess.run(['git', '-C', '/repo', 'rev-parse', '--short', 'HEAD'], capture_output=True, text=True).stdout.strip()
        meta = {'property': prop, 'breaks': breaks, 'needs_to_manifest': needs, 'origin': os.environ.get('SEED_ORIGIN') or 'independent sub-agent given only the property text and a scratch worktree',
                'confirmed_against_repo_commit': head, 'confirmation': ran, 'detected_by': [prop]}
        with open(os.path.join(out, 'meta.json'), 'w') as f:
            json.dump(meta, f, indent=1)
        print('stored', out)
        return 0
    finally:
        shutil.rmtree(clean, ignore_errors=True)
        shutil.rmtree(changed, ignore_errors=True)


if __name__ == '__main__':
    sys.exit(main())
