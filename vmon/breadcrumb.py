"""
What the shard is doing right now, kept where it survives the shard.

Every guarded call into cardutil runs under a CPU-time allowance enforced by the kernel (ITIMER_VIRTUAL with the default
disposition of SIGVTALRM: the process is ended, also when it is stuck inside C code where no Python line runs and no
Python signal handler can).  A shard that ends that way cannot report anything itself, so before each case - and, where
a property wants finer grain, before each call - it notes what it is about to do in a small memory-mapped file.  The
parent reads it back when it sees the shard was ended by SIGVTALRM.
"""
import json
import mmap
import os
import struct

SIZE = 1 << 18
_HALF = SIZE // 2
_map = None


def open_for(path):
    global _map
    with open(path, 'wb') as f:
        f.truncate(SIZE)
    fd = os.open(path, os.O_RDWR)
    _map = mmap.mmap(fd, SIZE)
    os.close(fd)


def _put(offset, obj):
    if _map is None:
        return
    raw = json.dumps(obj, default=repr).encode()[:_HALF - 8]
    _map[offset:offset + 4] = b'\0\0\0\0'                       # invalidate while the body changes
    _map[offset + 4:offset + 4 + len(raw)] = raw
    _map[offset:offset + 4] = struct.pack('>I', len(raw))


def case(obj):
    """The case handed to judge() (coarse)."""
    _put(0, obj)
    _put(_HALF, None)


def call(obj):
    """The single call about to be made, as a case that judge() can replay on its own (fine)."""
    _put(_HALF, obj)


def read(path):
    out = {}
    try:
        with open(path, 'rb') as f:
            raw = f.read()
    except OSError:
        return out
    for name, off in (('case', 0), ('call', _HALF)):
        try:
            n = struct.unpack('>I', raw[off:off + 4])[0]
            out[name] = json.loads(raw[off + 4:off + 4 + n]) if n else None
        except (ValueError, struct.error):
            out[name] = None
    return out
