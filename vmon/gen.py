"""
Seeded generators for the message domain shared by C01, C02, C06, C07, C08, C10, C12, C16, C19, C20:
single-byte codecs and their character repertoires, field configurations, well-formed messages.
Everything takes a random.Random; nothing here imports cardutil (the packaged configuration is passed in).
"""
import datetime
import decimal
import encodings
import importlib
import pkgutil

DE43_REGEX = (r"(?P<DE43_NAME>.+?) *\\(?P<DE43_ADDRESS>.+?) *\\(?P<DE43_SUBURB>.+?) *\\"
              r"(?P<DE43_POSTCODE>.{10})(?P<DE43_STATE>.{3})(?P<DE43_COUNTRY>\S{3})$")
DATE_FORMATS = [('%y%m%d%H%M%S', 12), ('%y%m%d', 6), ('%Y%m%d', 8), ('%Y%m%d%H%M%S', 14), ('%y%m%d%H%M', 10)]
EBCDIC = ('cp037', 'cp500', 'cp1026', 'cp1140', 'cp273', 'cp424', 'cp875')
CORE_CODECS = ('latin_1', 'ascii', 'cp500', 'cp037')

_codecs = None
_repertoire = {}


def single_byte_codecs():
    """Every codec in the standard library that maps single bytes to single characters (charmap codecs + latin_1 + ascii)."""
    global _codecs
    if _codecs is None:
        names = []
        for info in pkgutil.iter_modules(encodings.__path__):
            try:
                mod = importlib.import_module('encodings.' + info.name)
            except Exception:
                continue
            table = getattr(mod, 'decoding_table', None)
            if isinstance(table, str) and len(table) == 256:
                names.append(info.name)
        names += ['latin_1', 'ascii']
        ok = []
        for n in sorted(set(names)):
            rep = repertoire(n)
            if all(ch in rep for ch in '0123456789 '):
                ok.append(n)
        _codecs = ok
    return list(_codecs)


def is_text(c):
    """Element carries text (no python type, or the documented default 'string' written out)."""
    return c.get('field_python_type') in (None, '', 'string')


def repertoire(enc):
    """Characters c with c.encode(enc) a single byte that decodes back to c."""
    r = _repertoire.get(enc)
    if r is None:
        chars = []
        for b in range(256):
            try:
                c = bytes([b]).decode(enc)
            except UnicodeError:
                continue
            if len(c) != 1:
                continue
            try:
                if c.encode(enc) == bytes([b]):
                    chars.append(c)
            except UnicodeError:
                continue
        r = ''.join(chars)
        _repertoire[enc] = r
    return r


MULTIBYTE = 'éÖñ€中𝄞'


def text(rng, enc, n, style=None, multibyte=False):
    """n characters encodable in enc; biased towards digits, space, punctuation that matters to parsers, 0x40/0x00 images."""
    if multibyte and enc in ('utf_8', 'utf8', 'utf-8') and n >= 1:
        # variable-length text under a multi-byte codec: mix in characters of 2, 3 and 4 bytes (n counts BYTES here)
        out = ''
        while len(out.encode(enc)) < n:
            room = n - len(out.encode(enc))
            cands = [c for c in MULTIBYTE if len(c.encode(enc)) <= room]
            out += rng.choice(cands) if cands and rng.random() < 0.4 else rng.choice('ABCabc019 -')
        return out
    rep = repertoire(enc)
    style = style or rng.choice(['mixed', 'mixed', 'digits', 'alnum', 'any', 'spaces', 'hostile'])
    if style == 'digits':
        pool = '0123456789'
    elif style == 'alnum':
        pool = 'ABCDEFGHIJKLMNOPQRSTUVWXYZabcdefghijklmnopqrstuvwxyz0123456789'
    elif style == 'spaces':
        pool = '  A1 '
    elif style == 'hostile':
        extra = ''
        for b in (0x40, 0x00, 0xFF, 0x7F):
            try:
                c = bytes([b]).decode(enc)
                if c in rep:
                    extra += c
            except UnicodeError:
                pass
        pool = '-+_ \\,"\'0123456789' + extra + ''.join(c for c in rep if c.isdigit() and c not in '0123456789')
    elif style == 'any':
        pool = rep
    else:
        pool = 'ABCDEFGHIJKLMNOPQRSTUVWXYZabcdefghijklmnopqrstuvwxyz0123456789      -+_\\,"/.:[]!^|' + rep[:0]
    pool = ''.join(c for c in pool if c in rep) or '0123456789'
    return ''.join(rng.choice(pool) for _ in range(n))


def var_len(rng, w, want=None):
    top = 10 ** w - 1
    if want is not None:
        return want
    r = rng.random()
    if r < 0.10:
        return rng.choice([1, 2, 9, 10, 11, top - 1, top])
    if r < 0.18 and w == 3:
        return rng.choice([98, 99, 100, 101, 255, 256, 500, 998, 999])
    if r < 0.8:
        return rng.randint(1, 40)
    return rng.randint(1, top)


def gen_datetime(rng, fmt):
    if '%y' in fmt:
        lo, hi = datetime.datetime(1969, 1, 1), datetime.datetime(2068, 12, 31, 23, 59, 59)
    else:
        lo, hi = datetime.datetime(1000, 1, 1), datetime.datetime(9999, 12, 31, 23, 59, 59)
    r = rng.random()
    if r < 0.1:
        d = rng.choice([lo, hi, datetime.datetime(2000, 2, 29, 12, 30, 59), datetime.datetime(2024, 2, 29),
                        datetime.datetime(1999, 12, 31, 23, 59, 59), datetime.datetime(2000, 1, 1)])
    elif r < 0.2:
        # wall-clock times that do not exist (or exist twice) in a time zone with daylight saving: a value is a value,
        # whatever zone the process runs in (US rule: second Sunday of March 02:00-03:00, first Sunday of November 01:00-02:00)
        year = rng.choice([2007, 2015, 2019, 2021, 2024, 2031])
        if rng.random() < 0.7:
            day = datetime.date(year, 3, 8)
            day += datetime.timedelta(days=(6 - day.weekday()) % 7)
            d = datetime.datetime(day.year, day.month, day.day, 2, rng.choice([0, 1, 30, 59]), rng.choice([0, 59]))
        else:
            day = datetime.date(year, 11, 1)
            day += datetime.timedelta(days=(6 - day.weekday()) % 7)
            d = datetime.datetime(day.year, day.month, day.day, 1, 30, 0)
    else:
        span = int((hi - lo).total_seconds())
        d = lo + datetime.timedelta(seconds=rng.randint(0, span))
    # keep only what the format can carry
    keep = {}
    keep['hour'] = d.hour if '%H' in fmt else 0
    keep['minute'] = d.minute if '%M' in fmt else 0
    keep['second'] = d.second if '%S' in fmt else 0
    return d.replace(microsecond=0, **keep)


def gen_value(rng, c, enc, length=None, pan=False):
    """A well-formed value for one element configuration."""
    ftype = c['field_type']
    ptype = c.get('field_python_type')
    proc = c.get('field_processor')
    w = {'FIXED': 0, 'LLVAR': 2, 'LLLVAR': 3}[ftype]
    width = c.get('field_length', 0) or 0
    if proc == 'ICC':
        return gen_icc(rng, (10 ** w - 1) if w else width, length, enc)
    if ptype in ('int', 'long'):
        digits = width if not w else rng.randint(1, min(18, 10 ** w - 1))
        if length is not None and w:
            digits = length
        r = rng.random()
        if not w:
            if r < 0.15:
                return 0
            if r < 0.3:
                return 10 ** digits - 1
            if r < 0.4:
                return 1
            return rng.randint(0, 10 ** digits - 1)
        # variable-length number: its decimal rendering is the value's own width
        return rng.randint(10 ** (digits - 1), 10 ** digits - 1) if digits > 1 else rng.randint(0, 9)
    if ptype == 'decimal':
        if not w:
            places = rng.randint(1, max(1, min(4, width - 2)))
            whole = max(1, width - places - 1)
            v = decimal.Decimal('%d.%0*d' % (rng.randint(0, 10 ** whole - 1), places, rng.randint(0, 10 ** places - 1)))
            if rng.random() < 0.1:
                v = decimal.Decimal('0.' + '0' * places)
            return v
        return decimal.Decimal('%d.%02d' % (rng.randint(0, 99999), rng.randint(0, 99)))
    if ptype == 'datetime':
        return gen_datetime(rng, c.get('field_date_format', '%y%m%d'))
    if proc in ('PAN', 'PAN-PREFIX') or pan:
        n = length if length is not None else rng.choice([10, 11, 12, 13, 16, 16, 19, rng.randint(10, min(40, 10 ** w - 1))])
        return ''.join(rng.choice('0123456789') for _ in range(n))
    if not w:
        return text(rng, enc, width)
    n = length if length is not None else var_len(rng, w)
    if proc is None and enc in ('utf_8', 'utf8', 'utf-8'):
        return text(rng, enc, n, multibyte=True)
    if proc == 'DE43' and rng.random() < 0.7 and '\\' in repertoire(enc):
        return gen_de43(rng, enc, n if length is not None else None)
    if proc == 'PDS':
        return gen_pds_text(rng, enc, n)
    return text(rng, enc, n)


def gen_de43(rng, enc, n=None):
    name = text(rng, enc, rng.randint(1, 22), 'alnum') + ' ' * rng.randint(0, 3)
    addr = text(rng, enc, rng.randint(1, 20), 'alnum') + ' ' * rng.randint(0, 2)
    sub = text(rng, enc, rng.randint(1, 13), 'alnum') + ' ' * rng.randint(0, 2)
    post = text(rng, enc, rng.randint(0, 10), 'digits')
    post = rng.choice([post.ljust(10), post.ljust(10), post.rjust(10), post.center(10)])
    state = text(rng, enc, 3, 'alnum')
    country = text(rng, enc, 3, 'alnum')
    s = '%s\\%s\\%s\\%s%s%s' % (name, addr, sub, post, state, country)
    if n is not None:
        s = s[:n].ljust(n, 'X')
    return s[:99]


def gen_pds_text(rng, enc, n):
    """A raw carrier value that is itself well-formed TLV and exactly n characters long (n >= 7), else plain digits."""
    if n < 7:
        return None
    out = ''
    tag = rng.randint(1, 50)
    while len(out) < n:
        room = n - len(out) - 7
        if room < 0:
            # cannot fit another header: stretch the previous value instead
            return None
        ln = room if room < 12 or rng.random() < 0.3 else rng.randint(0, min(room, 60))
        if n - len(out) - 7 - ln in range(1, 7):
            ln = room
        out += '%04d%03d%s' % (tag, ln, text(rng, enc, ln, rng.choice(['alnum', 'digits', 'mixed'])))
        tag += rng.randint(1, 40)
        if tag > 9999:
            return None
    return out if len(out) == n else None


def hexlike_bytes(enc):
    """Byte values that decode, under enc, to characters a text-minded parser could take for hex digits."""
    out = []
    for b in range(1, 256):
        try:
            ch = bytes([b]).decode(enc)
        except UnicodeError:
            continue
        if ch in '0123456789abcdefABCDEF' and b not in (0x5f, 0x9f):
            out.append(b)
    return out


def gen_icc_hexlike(rng, maxlen, enc):
    """
    Binary TLV data every byte of which (tags, lengths, values) happens to be a hex-digit character in the message codec,
    even total length: still binary, still untouched by the codec - but it LOOKS like hex text.
    """
    pool = hexlike_bytes(enc)
    lens = [b for b in pool if b % 2 == 0 and b + 2 <= maxlen]
    if not pool or not lens:
        return None
    out = bytearray()
    for _ in range(rng.randint(1, 3)):
        n = rng.choice(lens)
        if len(out) + 2 + n > maxlen:
            break
        out += bytes([rng.choice(pool), n]) + bytes(rng.choice(pool) for _ in range(n))
    return bytes(out) or None


def gen_icc(rng, maxlen, length=None, enc=None):
    """Well-formed 1-byte-length TLV sequence with 1-byte tags (not 00, 5F, 9F) or 2-byte tags 5Fxx / 9Fxx."""
    if length is None and enc and rng.random() < 0.12:
        v = gen_icc_hexlike(rng, maxlen, enc)
        if v:
            return v
    target = length if length is not None else rng.choice([rng.randint(2, 60), rng.randint(2, min(maxlen, 255)),
                                                           rng.randint(2, maxlen)])
    target = max(2, min(target, maxlen))
    out = bytearray()
    while len(out) < target:
        room = target - len(out)
        two = rng.random() < 0.5 and room >= 3
        hdr = 3 if two else 2
        if room < hdr:
            break
        if two:
            tag = bytes([rng.choice([0x9f, 0x5f]), rng.randint(1, 0xfe)])
        else:
            tag = bytes([rng.choice([b for b in range(1, 256) if b not in (0x5f, 0x9f)])])
        n = min(room - hdr, rng.choice([0, 1, 2, 8, rng.randint(0, 40), 255]))
        rest = room - hdr - n
        if 0 < rest < 2:
            n += rest
        if n > 255:
            n = 255
        out += tag + bytes([n]) + rng.randbytes(n)
    if length is not None and len(out) != length:
        return None
    return bytes(out)


# -------------------------------------------------------------------------------------------------------------------
# configurations
# -------------------------------------------------------------------------------------------------------------------
def gen_config(rng, with_decimal=True):
    """A caller-supplied configuration: random subset of bits 2..127 with random type / width / python type / processors."""
    nbits = rng.randint(8, 36)
    bits = set(rng.sample(range(2, 128), nbits))
    bits |= set(rng.sample(range(65, 128), 3))
    bits = sorted(bits)
    cfg = {'1': {'field_name': 'Bitmap secondary', 'field_type': 'FIXED', 'field_length': 8}}
    var_text = []
    for b in bits:
        r = rng.random()
        c = {'field_name': 'generated %d' % b}
        if r < 0.45:
            c['field_type'] = 'FIXED'
            t = rng.random()
            if t < 0.55:
                c['field_length'] = rng.randint(1, 30)
            elif t < 0.75:
                c['field_length'] = rng.randint(1, 18)
                c['field_python_type'] = rng.choice(['int', 'long'])
            elif t < 0.85 and with_decimal:
                c['field_length'] = rng.randint(4, 14)
                c['field_python_type'] = 'decimal'
            else:
                fmt, width = rng.choice(DATE_FORMATS)
                c['field_length'] = width
                c['field_python_type'] = 'datetime'
                c['field_date_format'] = fmt
        else:
            c['field_type'] = 'LLVAR' if r < 0.75 else 'LLLVAR'
            c['field_length'] = rng.choice([0, 0, 11, 23])
            t = rng.random()
            if t < 0.06:
                c['field_python_type'] = 'int'
                c['field_length'] = 0
            elif t < 0.09 and with_decimal:
                c['field_python_type'] = 'decimal'
                c['field_length'] = 0
            else:
                var_text.append(b)
        if 'field_python_type' not in c and rng.random() < 0.25:
            c['field_python_type'] = 'string'          # the documented default, written out
        cfg[str(b)] = c
    rng.shuffle(var_text)
    lll = [b for b in var_text if cfg[str(b)]['field_type'] == 'LLLVAR']
    for b in lll[:rng.randint(0, 5)]:
        cfg[str(b)]['field_processor'] = 'PDS'
        var_text.remove(b)
    rest = [b for b in var_text]
    if rest:
        b = rest.pop()
        cfg[str(b)]['field_processor'] = 'ICC'
    if rest and rng.random() < 0.7:
        cands = [b for b in rest if cfg[str(b)]['field_type'] == 'LLVAR']
        if cands:
            b = cands[0]
            rest.remove(b)
            cfg[str(b)]['field_processor'] = 'DE43'
            cfg[str(b)]['field_processor_config'] = DE43_REGEX
    for b in rest[:2]:
        if rng.random() < 0.6:
            cfg[str(b)]['field_processor'] = rng.choice(['PAN', 'PAN-PREFIX'])
    return cfg


def packaged_variant(rng, base):
    """The packaged configuration with processors moved/added (PAN masking on some variable text elements)."""
    import copy
    cfg = copy.deepcopy(base)
    plain = [b for b, c in cfg.items() if c['field_type'] in ('LLVAR', 'LLLVAR') and not c.get('field_processor')
             and is_text(c)]
    rng.shuffle(plain)
    for b in plain[:rng.randint(1, 3)]:
        cfg[b]['field_processor'] = rng.choice(['PAN', 'PAN-PREFIX'])
        if rng.random() < 0.5:
            cfg[b]['field_python_type'] = 'string'     # as in the example at the top of cardutil/config.py
    return cfg


# -------------------------------------------------------------------------------------------------------------------
# messages
# -------------------------------------------------------------------------------------------------------------------
def gen_mti(rng):
    return '%04d' % rng.randint(0, 9999)


def data_bits(cfg):
    return sorted(int(b) for b in cfg if 2 <= int(b) <= 127)


def gen_pds_items(rng, enc, ncarriers, want_carriers=None):
    """dict PDSxxxx -> value that packs into at most ncarriers carriers."""
    from .ref import codec
    for attempt in range(20):
        n = rng.choice([1, 2, 3, 5, 10, 25, 60]) if want_carriers is None else rng.randint(want_carriers, want_carriers * 12)
        tags = sorted(rng.sample(range(0, 10000), n))
        if rng.random() < 0.2:
            tags[0] = 0                      # tag 0000 is a tag like any other
        if rng.random() < 0.1:
            tags[-1] = 9999
        tags = sorted(set(tags))
        items = {}
        for t in tags:
            r = rng.random()
            if want_carriers and want_carriers > 1:
                ln = rng.choice([0, rng.randint(0, 300), rng.randint(200, 992)])
            else:
                ln = 0 if r < 0.08 else rng.randint(1, 30) if r < 0.8 else rng.randint(0, 300)
            items['PDS%04d' % t] = text(rng, enc, ln, rng.choice(['alnum', 'digits', 'mixed', 'hostile']))
        packed = codec.pack_pds([(int(k[3:]), v) for k, v in items.items()])
        if len(packed) <= ncarriers and (want_carriers is None or len(packed) == want_carriers):
            return items
    return {'PDS0001': 'X'}


def gen_message(rng, cfg, enc, subset=None, pds_mode=None, lengths=None):
    """
    A well-formed message under cfg/enc.
      subset   : list of bits to include (default: seeded subset)
      pds_mode : 'keys' (PDSxxxx entries), 'raw' (carrier values that are well-formed TLV), 'none'
      lengths  : {bit: length} to force for variable elements
    """
    from .ref import codec
    bits = data_bits(cfg)
    carriers = codec.carriers_of(cfg)
    if subset is None:
        r = rng.random()
        if r < 0.1:
            subset = list(bits)
        elif r < 0.25:
            subset = rng.sample(bits, min(len(bits), rng.randint(1, 3)))
        else:
            subset = rng.sample(bits, rng.randint(1, len(bits)))
    if pds_mode is None:
        pds_mode = rng.choice(['keys', 'raw', 'none', 'none']) if carriers else 'none'
    msg = {'MTI': gen_mti(rng)}
    for b in sorted(subset):
        c = cfg[str(b)]
        if b in carriers:
            if pds_mode != 'raw':
                continue
            w = 3 if c['field_type'] == 'LLLVAR' else 2
            for attempt in range(8):
                v = gen_pds_text(rng, enc, (lengths or {}).get(b) or rng.randint(7, min(400, 10 ** w - 1)))
                if v:
                    msg['DE%d' % b] = v
                    break
            continue
        v = gen_value(rng, c, enc, (lengths or {}).get(b))
        if v is None or (isinstance(v, (str, bytes)) and len(v) == 0):
            continue
        msg['DE%d' % b] = v
    if pds_mode == 'keys' and carriers:
        msg.update(gen_pds_items(rng, enc, len(carriers), rng.choice([None, None, 1, 2, len(carriers)])))
    return msg


def expected_roundtrip(msg, cfg):
    """What decoding the encoded message must return for every original key (C01 relation)."""
    from .ref import codec
    out = {}
    for k, v in msg.items():
        if k.startswith('DE'):
            proc = cfg[k[2:]].get('field_processor')
            if proc == 'PAN':
                v = codec.mask(v)
            elif proc == 'PAN-PREFIX':
                v = v[:9]
        out[k] = v
    return out


def allowed_extra_key(k, cfg):
    from .ref import codec
    if k.startswith('PDS') or k.startswith('TAG') or k == 'ICC_DATA' or k.startswith('DE43_'):
        return True
    if k.startswith('DE') and k[2:].isdigit() and int(k[2:]) in codec.carriers_of(cfg):
        return True
    return False


def jsonable(msg):
    """Message dict -> JSON-able (for replay files and samples)."""
    out = {}
    for k, v in msg.items():
        if isinstance(v, bytes):
            out[k] = {'bytes': v.hex()}
        elif isinstance(v, datetime.datetime):
            out[k] = {'datetime': v.isoformat()}
        elif isinstance(v, decimal.Decimal):
            out[k] = {'decimal': str(v)}
        else:
            out[k] = v
    return out


def unjsonable(obj):
    out = {}
    for k, v in obj.items():
        if isinstance(v, dict):
            if 'bytes' in v:
                out[k] = bytes.fromhex(v['bytes'])
            elif 'datetime' in v:
                out[k] = datetime.datetime.fromisoformat(v['datetime'])
            elif 'decimal' in v:
                out[k] = decimal.Decimal(v['decimal'])
        else:
            out[k] = v
    return out


def brief(msg, limit=60):
    """Short printable rendering for evidence samples."""
    out = {}
    for k, v in jsonable(msg).items():
        s = v if isinstance(v, (int,)) else (v if isinstance(v, dict) else str(v))
        if isinstance(s, str) and len(s) > limit:
            s = s[:limit] + '...(%d chars)' % len(v)
        if isinstance(s, dict) and 'bytes' in s and len(s['bytes']) > limit:
            s = {'bytes': s['bytes'][:limit] + '...(%d bytes)' % (len(s['bytes']) // 2)}
        out[k] = s
    return out
