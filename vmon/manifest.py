"""Regenerate /verif/MANIFEST.json from vmon/registry.py:  python -m vmon.manifest"""
import json
import os

from . import env, registry

ALL = ['C%02d' % i for i in range(1, 21)]


def build():
    checks = []
    for pid in ALL:
        c = registry.CHECKS.get(pid)
        if not c:
            continue
        checks.append({
            'property_id': pid,
            'quick_cmd': './check %s --tier quick' % pid,
            'thorough_cmd': './check %s --tier thorough' % pid,
            'evidence_file': 'evidence/%s.json' % pid,
            'replay_cmd_template': './check %s --replay {path}' % pid,
            'engine': 'vmon',
            'level_claimed': {'category': c['level'], 'text': c['text'], 'design_ref': c['design_ref']},
            'level_note': c['note'],
            'technique': c['technique'],
        })
    na = [{'property_id': pid, 'reason': registry.NOT_CLAIMED.get(pid, 'check not built yet (work in progress, see DESIGN.md section 4)')}
          for pid in ALL if pid not in registry.CHECKS]
    return {
        'version': 1,
        'setup_cmd': './setup.sh',
        'hooks': {
            'guard': env.GUARD,
            'enable': 'No hook lives in the repository: recorders are installed from the harness on the real module/class '
                      'objects after import (vmon/hooks.py) and checks export CARDUTIL_VERIF=1; nothing is built.',
            'baseline_off_cmd': 'cd /repo && env -u CARDUTIL_VERIF /venv/bin/python -m pytest -ra -q -p no:cacheprovider '
                                '--timeout=900 --continue-on-collection-errors',
            'source_commits': [],
            'add_only': True,
        },
        'engines': [{
            'name': 'vmon',
            'path': 'vmon/',
            'serves_properties': [c['property_id'] for c in checks],
            'kind_free_text': 'stdlib-only runtime monitors: boundary recorders on the real cardutil functions, reference-model '
                              'oracles, sys.monitoring step-budget sentinel, structured fault enumeration, 16-way sharding',
        }],
        'checks': checks,
        'notes': 'Every check imports cardutil from /repo working tree (VERIF_REPO overrides for self-tests), honours VERIF_SEED '
                 'and VERIF_TIER, exits 0 held / 1 VIOLATION / 2 INCONCLUSIVE. Known findings: known_findings.json. In every check '
                 'three of the sixteen shards run their slice of all case classes in another environment: cardutil logging at '
                 'DEBUG, an interpreter started with -O, and a time zone with daylight saving '
                 '(DESIGN.md section 2.3); witnesses carry the environment and are replayed in it.',
        'not_applicable': na,
    }


def main():
    m = build()
    path = os.path.join(env.VERIF_DIR, 'MANIFEST.json')
    with open(path, 'w') as f:
        json.dump(m, f, indent=1)
        f.write('\n')
    print('wrote', path, 'checks:', len(m['checks']), 'not claimed:', len(m['not_applicable']))


if __name__ == '__main__':
    main()
