"""
Child of the 'interpreter options' cases (props/c06.py, props/c07.py): the same public-API calls, in an interpreter
started with other options (-O, -OO, -X utf8, -I) or another TZ.  Reads jobs (JSON), writes one JSON line per job.
It judges nothing: the parent compares what comes back with its reference models.  Only cardutil is imported here
(plus the standard library), so the options act on the library, not on the harness.
"""
import io
import json
import os
import sys


def jsonable(v):
    import datetime
    import decimal
    if isinstance(v, (bytes, bytearray)):
        return {'__b': bytes(v).hex()}
    if isinstance(v, datetime.datetime):
        return {'__dt': v.isoformat()}
    if isinstance(v, decimal.Decimal):
        return {'__dec': str(v)}
    if isinstance(v, dict):
        return {k: jsonable(x) for k, x in v.items()}
    if isinstance(v, (list, tuple)):
        return [jsonable(x) for x in v]
    return v


def unjsonable(v):
    import datetime
    import decimal
    if isinstance(v, dict):
        if '__b' in v:
            return bytes.fromhex(v['__b'])
        if '__dt' in v:
            return datetime.datetime.fromisoformat(v['__dt'])
        if '__dec' in v:
            return decimal.Decimal(v['__dec'])
        return {k: unjsonable(x) for k, x in v.items()}
    if isinstance(v, list):
        return [unjsonable(x) for x in v]
    return v


def main():
    repo = os.environ.get('VERIF_REPO', '/repo')
    sys.path.insert(0, repo)
    import cardutil
    from cardutil import iso8583, mciipm
    if os.environ.get('TZ'):
        import time
        time.tzset()
    with open(sys.argv[1]) as f:
        jobs = json.load(f)
    for i, job in enumerate(jobs):
        op = job['op']
        print(json.dumps({'at': i}), flush=True)
        out = {'i': i}
        try:
            if op == 'loads':
                out['ok'] = jsonable(iso8583.loads(bytes.fromhex(job['data']), encoding=job['enc'], hex_bitmap=job.get('hex', False)))
            elif op == 'dumps':
                out['ok'] = iso8583.dumps(unjsonable(job['msg']), encoding=job['enc'], hex_bitmap=job.get('hex', False)).hex()
            elif op == 'roundtrip':
                f = io.BytesIO()
                with mciipm.IpmWriter(f, encoding=job['enc'], blocked=job['blocked']) as w:
                    for m in unjsonable(job['msgs']):
                        w.write(m)
                data = f.getvalue()
                back = list(mciipm.IpmReader(io.BytesIO(data), encoding=job['enc'], blocked=job['blocked']))
                out['ok'] = {'file': data.hex(), 'back': jsonable(back), 'info': mciipm.ipm_info(io.BytesIO(data))}
            elif op == 'vbs':
                recs = [bytes.fromhex(r) for r in job['recs']]
                data = mciipm.vbs_list_to_bytes(recs, blocked=job['blocked'])
                out['ok'] = {'file': data.hex(), 'back': [r.hex() for r in mciipm.vbs_bytes_to_list(data, blocked=job['blocked'])]}
            elif op == 'read':
                n = 0
                for _ in mciipm.IpmReader(io.BytesIO(bytes.fromhex(job['data'])), encoding=job['enc'], blocked=job['blocked']):
                    n += 1
                out['ok'] = n
            else:
                out['escape'] = 'unknown op'
        except cardutil.CardutilError as ex:
            out['lib'] = type(ex).__name__
        except BaseException as ex:      # noqa - reported, never judged here
            import traceback
            tb = traceback.extract_tb(ex.__traceback__)
            where = next((fr for fr in reversed(tb) if '/cardutil/' in fr.filename), tb[-1] if tb else None)
            out['escape'] = type(ex).__name__
            out['where'] = '%s:%s' % (os.path.basename(where.filename), where.name) if where else '?'
        print(json.dumps(out), flush=True)
    print(json.dumps({'done': True}), flush=True)


if __name__ == '__main__':
    main()
