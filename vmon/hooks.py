"""
Online monitors installed from the harness on the REAL cardutil classes and functions (no source change in the
repository): every call that any workload makes - the repository's own tests, the CLI tools, a check's driver - is
observed at the API boundary and judged by a shadow reference model while it happens.

  family   hook                                   oracle
  -------  -------------------------------------  ------------------------------------------------------------------
  C04      Block1014.__init__/write/finalise      bytes appended to the wrapped file since the last finalisation ==
                                                  ref.block(data written) [+ one all-fill block]
  C05      Unblock1014.__init__/read              every returned slice == the payload-stream model of the wrapped bytes
  C03      VbsWriter.write/close                  after close the file parses (reference reader) to the records written
  C09      VbsReader.__next__                     k-th record / end / error == reference reader over the wrapped bytes
  C07      iso8583.loads                          returns a dict or raises Iso8583DataError, within the step budget
  C08      iso8583.loads                          strict-accepts => same dict; lenient-rejects => rejected; else same DE values
  C02      iso8583.dumps                          bytes == reference encoder (when the message is inside the documented domain)

Monitors only watch: they never change a return value or swallow an exception, and they only read wrapped file
objects that can be read without disturbing them (objects with getvalue()).  Anything else is counted as unobserved.
install(report) returns a Counters object; report(family, mechanism, detail) is called for every violation.
"""
import collections
import functools
import os

from . import sentinel
from .ref import blocking as refb
from .ref import codec as refc

FAMILIES = ('C02', 'C03', 'C04', 'C05', 'C07', 'C08', 'C09')
counters = collections.Counter()
_installed = []
_report = None
_enabled = set()
_busy = [0]          # re-entrancy guard: monitors must not judge calls made by other monitors


def _viol(family, mech, detail):
    counters['violations:' + family] += 1
    if _report:
        _report(family, mech, detail)


def _snapshot(f):
    """(bytes, position) of a wrapped file object if it can be read without side effects, else None."""
    try:
        if getattr(f, 'closed', False):
            return None
        if hasattr(f, 'getvalue') and hasattr(f, 'tell'):
            return f.getvalue(), f.tell()
        name = getattr(f, 'name', None)
        if isinstance(name, str) and hasattr(f, 'fileno') and hasattr(f, 'tell') and os.path.isfile(name):
            if 'r' not in getattr(f, 'mode', 'r') or '+' in getattr(f, 'mode', ''):
                f.flush()
            with open(name, 'rb') as g:
                return g.read(), f.tell()
    except Exception:
        return None
    return None


def _patch(owner, name, make):
    try:
        orig = owner.__dict__[name] if isinstance(owner, type) else getattr(owner, name)
    except (KeyError, AttributeError):
        # the method moved (base class, renamed): this monitor stays off, the property checks do not depend on it
        counters['monitor not installed: %s.%s' % (getattr(owner, '__name__', owner), name)] += 1
        return
    raw = orig.__func__ if isinstance(orig, (classmethod, staticmethod)) else orig
    new = make(raw)
    functools.update_wrapper(new, raw)
    setattr(owner, name, new)
    _installed.append((owner, name, orig))


def uninstall():
    while _installed:
        owner, name, orig = _installed.pop()
        setattr(owner, name, orig)


def _in_order(chunks, stream):
    """True if every chunk occurs in `stream`, whole, one after the other."""
    pos = 0
    for c in chunks:
        at = stream.find(c, pos)
        if at < 0:
            return False
        pos = at + len(c)
    return True


# ------------------------------------------------------------------------------------------------------- C04
def _mon_block1014(m):
    cls = m.Block1014

    def init(orig):
        def __init__(self, file_obj, *a, **k):
            orig(self, file_obj, *a, **k)
            snap = _snapshot(file_obj)
            self.__dict__['_vm'] = {'data': bytearray(), 'chunks': [], 'raw': file_obj,
                                    'start': len(snap[0]) if snap and snap[1] == len(snap[0]) else None}
        return __init__

    def write(orig):
        def write(self, b, *a, **k):
            r = orig(self, b, *a, **k)
            vm = self.__dict__.get('_vm')
            if vm is not None:
                try:
                    vm['data'] += bytes(b)
                    vm['chunks'].append(bytes(b))
                except Exception:
                    vm['start'] = None
            counters['C04:Block1014.write observed'] += 1
            return r
        return write

    def finalise(orig):
        def finalise(self, *a, **k):
            r = orig(self, *a, **k)
            vm = self.__dict__.get('_vm')
            snap = _snapshot(vm['raw']) if vm else None      # the object handed to the constructor, not an attribute name
            if vm is None or vm['start'] is None or snap is None:
                counters['C04:finalisations not observable'] += 1
                return r
            out = snap[0][vm['start']:]
            why = refb.classify_blocked(out, bytes(vm['data']))
            if why and len(out) % 1014 == 0 and len(vm['data']) < (len(out) // 1014) * 1012 and _in_order(vm['chunks'], refb.payload_stream(out)):
                # the file holds more data than passed through write(), and everything that did pass is there, whole and in
                # order: data reached the file through an entry point this monitor does not see (a rewrite may add one, e.g.
                # a method that takes several parts).  What was seen does not account for the file, so only the block
                # structure is judged; the property's own driver compares whole files with what it wrote.
                counters['C04:finalisations judged on structure only (data not seen by the monitor)'] += 1
                bad = refb.well_blocked(out)
                if bad:
                    _viol('C04', 'online:blocker_output:structure:bad_trailer', {'written_seen': len(vm['data']), 'file_len': len(out), 'detail': bad})
                vm['data'], vm['chunks'] = bytearray(), []
                vm['start'] = len(snap[0])
                return r
            counters['C04:finalisations judged'] += 1
            if why:
                _viol('C04', 'online:blocker_output:' + why, {'written': len(vm['data']), 'file_len': len(out)})
            vm['data'], vm['chunks'] = bytearray(), []
            vm['start'] = len(snap[0])
            return r
        return finalise
    _patch(cls, '__init__', init)
    _patch(cls, 'write', write)
    _patch(cls, 'finalise', finalise)


# ------------------------------------------------------------------------------------------------------- C05
def _mon_unblock1014(m):
    cls = m.Unblock1014

    def init(orig):
        def __init__(self, file_obj, *a, **k):
            orig(self, file_obj, *a, **k)
            snap = _snapshot(file_obj)
            self.__dict__['_vm'] = {'P': refb.payload_stream(snap[0][snap[1]:]), 'pos': 0} if snap else None
        return __init__

    def read(orig):
        def read(self, *a, **k):
            r = orig(self, *a, **k)
            vm = self.__dict__.get('_vm')
            if vm is None:
                counters['C05:reads not observable'] += 1
                return r
            n = a[0] if a else (next(iter(k.values())) if k else None)     # the one argument, whatever it is called
            if n == 0 and n is not None:
                counters['C05:reads of size 0 (not judged)'] += 1
                return r
            want = vm['P'][vm['pos']:] if n is None or n < 0 else vm['P'][vm['pos']:vm['pos'] + n]
            counters['C05:reads judged'] += 1
            if r != want:
                _viol('C05', 'online:unblocker_read:wrong_slice', {'size': n, 'pos': vm['pos'], 'got_len': len(r), 'want_len': len(want)})
                vm = self.__dict__['_vm'] = None
            else:
                vm['pos'] += len(want)
            return r
        return read
    _patch(cls, '__init__', init)
    _patch(cls, 'read', read)


# ------------------------------------------------------------------------------------------------------- C03
def _mon_vbswriter(m):
    cls = m.VbsWriter

    def init(orig):
        def __init__(self, out_file, *a, **k):
            orig(self, out_file, *a, **k)
            blocked = k.get('blocked', a[0] if a else False)
            snap = _snapshot(out_file)
            self.__dict__['_vm'] = {'recs': [], 'blocked': bool(blocked), 'raw': out_file,
                                    'start': len(snap[0]) if snap and snap[1] == len(snap[0]) else None, 'closed': False}
        return __init__

    def write(orig):
        def write(self, record, *a, **k):
            r = orig(self, record, *a, **k)
            vm = self.__dict__.get('_vm')
            if vm is not None and isinstance(record, (bytes, bytearray)) and not vm.get('in_many'):
                vm['recs'].append(bytes(record))
                counters['C03:VbsWriter.write observed'] += 1
            return r
        return write

    def write_many(orig):
        # write_many is public too, and need not be built on write(): what it is handed is recorded as it is consumed
        def write_many(self, records, *a, **k):
            vm = self.__dict__.get('_vm')
            if vm is None or vm.get('in_many') or type(self) is not cls:
                return orig(self, records, *a, **k)
            taken = []

            def watched():
                for rec in records:
                    taken.append(rec)
                    yield rec
            vm['in_many'] = True
            try:
                return orig(self, watched(), *a, **k)
            finally:
                vm['in_many'] = False
                if all(isinstance(x, (bytes, bytearray)) for x in taken):
                    vm['recs'].extend(bytes(x) for x in taken)
                    counters['C03:VbsWriter.write_many records observed'] += len(taken)
                else:
                    vm['start'] = None          # records of another type: this file is not judged
        return write_many

    def close(orig):
        def close(self, *a, **k):
            r = orig(self, *a, **k)
            vm = self.__dict__.get('_vm')
            if vm is None or vm['start'] is None or vm['closed']:
                return r
            vm['closed'] = True
            snap = _snapshot(vm['raw'])
            if snap is None:
                counters['C03:closes not observable'] += 1
                return r
            out = snap[0][vm['start']:]
            if True:
                # for a subclass (IpmWriter) write(bytes) is an internal seam, not part of its contract: it may or may not
                # route its records through it; and callers of the class itself may use entry points this monitor does not
                # know (a rewrite may add some).  What was seen is used only if it accounts for every record in the
                # file; otherwise the file is judged for being the canonical framing of the records it holds.
                try:
                    in_file, _ = refb.vbs_records_in(refb.payload_stream(out) if vm['blocked'] else out, max_len=1 << 31)
                except Exception:      # noqa
                    in_file = None
                if in_file is None:
                    counters['C03:closes not observable'] += 1
                    return r
                if len(vm['recs']) != len(in_file):
                    counters['C03:subclass files judged on their own records'] += 1
                    vm['recs'] = in_file
            stream = refb.vbs(vm['recs'])
            counters['C03:closes judged'] += 1
            if any(len(x) == 0 for x in vm['recs']):
                counters['C03:files with an empty record (not judged)'] += 1
                return r
            if vm['blocked']:
                why = refb.classify_blocked(out, stream)
                if why:
                    _viol('C03', 'online:vbs_file:blocked:' + why, {'records': len(vm['recs']), 'file_len': len(out)})
            elif out != stream:
                _viol('C03', 'online:vbs_file:bytes_differ', {'records': len(vm['recs']), 'file_len': len(out), 'want_len': len(stream)})
            return r
        return close
    _patch(cls, '__init__', init)
    _patch(cls, 'write', write)
    if hasattr(cls, 'write_many'):
        _patch(cls, 'write_many', write_many)
    _patch(cls, 'close', close)


# ------------------------------------------------------------------------------------------------------- C09
def _mon_vbsreader(m, max_len):
    cls = m.VbsReader

    def init(orig):
        def __init__(self, vbs_file, *a, **k):
            blocked = k.get('blocked', a[0] if a else False)
            snap = _snapshot(vbs_file)
            orig(self, vbs_file, *a, **k)
            if snap:
                rest = snap[0][snap[1]:]
                recs, ending = refb.vbs_records_in(refb.payload_stream(rest) if blocked else rest, max_len())
                self.__dict__['_vm'] = {'recs': recs, 'ending': ending, 'k': 0}
            else:
                self.__dict__['_vm'] = None
        return __init__

    def nxt(orig):
        def __next__(self):
            vm = self.__dict__.get('_vm')
            if vm is None:
                return orig(self)
            try:
                r = orig(self)
            except StopIteration:
                counters['C09:reader endings judged'] += 1
                if vm['k'] < len(vm['recs']):
                    _viol('C09', 'online:reader:stopped_before_a_complete_record', {'delivered': vm['k'], 'available': len(vm['recs'])})
                elif vm['ending'] != 'end':
                    counters['C09:reader ended quietly where the model predicts ' + vm['ending']] += 1
                self.__dict__['_vm'] = None
                raise
            except m.MciIpmDataError:
                counters['C09:reader endings judged'] += 1
                if vm['k'] < len(vm['recs']):
                    _viol('C09', 'online:reader:error_before_a_complete_record', {'delivered': vm['k'], 'available': len(vm['recs'])})
                self.__dict__['_vm'] = None
                raise
            except Exception as ex:
                _viol('C09', 'online:reader:exception:' + type(ex).__name__, {'delivered': vm['k']})
                self.__dict__['_vm'] = None
                raise
            counters['C09:records judged'] += 1
            if vm['k'] >= len(vm['recs']) or r != vm['recs'][vm['k']]:
                _viol('C09', 'online:reader:record_differs_from_model', {'index': vm['k'], 'available': len(vm['recs'])})
                self.__dict__['_vm'] = None
            else:
                vm['k'] += 1
            return r
        return __next__
    _patch(cls, '__init__', init)
    _patch(cls, '__next__', nxt)


# ------------------------------------------------------------------------------------------------------- C07 / C08 / C02
def _mon_codec(iso, packaged):
    def loads(orig):
        def loads(b, encoding=None, iso_config=None, hex_bitmap=False, *more, **extension):
            if more or extension:
                # an argument this monitor does not know (an extension of the signature): the call is passed on as it is and
                # not judged - the reference decoder does not know what the extension means
                counters['C07:loads calls with extension arguments (not judged)'] += 1
                return orig(b, encoding, iso_config, hex_bitmap, *more, **extension)
            if _busy[0]:
                return orig(b, encoding=encoding, iso_config=iso_config, hex_bitmap=hex_bitmap)
            enc = encoding or 'latin_1'
            cfg = iso_config or packaged
            outcome, val = 'ok', None
            try:
                val = orig(b, encoding=encoding, iso_config=iso_config, hex_bitmap=hex_bitmap)
            except iso.Iso8583DataError as ex:
                outcome, val = 'lib', ex
            except sentinel.StepBudgetExceeded:
                raise
            except Exception as ex:
                outcome, val = 'escape', ex
            counters['C07:loads observed'] += 1
            if outcome == 'escape' and 'C07' in _enabled and isinstance(b, (bytes, bytearray)):
                _viol('C07', 'online:loads:escape:%s@%s' % (type(val).__name__, sentinel.origin(val) or '?'), {'input': bytes(b).hex()[:400], 'enc': enc})
            if 'C08' in _enabled and isinstance(b, (bytes, bytearray)):
                _busy[0] += 1
                try:
                    _judge_bracket(bytes(b), cfg, enc, hex_bitmap, outcome, val)
                except Exception as ex:       # a bug in the monitor must not disturb the workload
                    counters['C08:monitor errors ' + type(ex).__name__] += 1
                finally:
                    _busy[0] -= 1
            if outcome == 'ok':
                return val
            raise val
        return loads

    def dumps(orig):
        def dumps(obj, encoding=None, iso_config=None, hex_bitmap=False, *more, **extension):
            if more or extension:
                counters['C02:dumps calls with extension arguments (not judged)'] += 1
                return orig(obj, encoding, iso_config, hex_bitmap, *more, **extension)
            if _busy[0] or 'C02' not in _enabled:
                return orig(obj, encoding=encoding, iso_config=iso_config, hex_bitmap=hex_bitmap)
            enc = encoding or 'latin_1'
            cfg = iso_config or packaged
            want = None
            try:
                snapshot = dict(obj)
                if snapshot.get('MTI') and not (any(k.startswith('PDS') for k in snapshot)
                                                and any(snapshot.get('DE%d' % c) for c in refc.carriers_of(cfg))):
                    want = refc.encode(snapshot, cfg, enc, hex_bitmap)
            except Exception:
                want = None
            r = orig(obj, encoding=encoding, iso_config=iso_config, hex_bitmap=hex_bitmap)
            if want is None:
                counters['C02:dumps outside the reference domain (not judged)'] += 1
            else:
                counters['C02:dumps judged'] += 1
                if r != want and not _domain_excuse(snapshot, cfg):
                    _viol('C02', 'online:dumps:bytes_differ', {'got': r.hex()[:300], 'want': want.hex()[:300], 'enc': enc})
            return r
        return dumps
    _patch(iso, 'loads', loads)
    _patch(iso, 'dumps', dumps)


def _domain_excuse(msg, cfg):
    """Inputs the statement does not cover: fixed values longer than the field, integers wider than the field."""
    for k, v in msg.items():
        if k.startswith('DE') and k[2:] in cfg:
            c = cfg[k[2:]]
            if c['field_type'] == 'FIXED':
                try:
                    if len(refc.render(c, v)) > c['field_length']:
                        return True
                except Exception:
                    return True
    return False


def _judge_bracket(data, cfg, enc, hexbm, outcome, val):
    accepted = outcome == 'ok'
    try:
        strict = refc.decode_strict(data, cfg, enc, hexbm)
    except refc.Reject:
        strict = None
    except Exception:
        counters['C08:reference could not judge (configuration outside its model)'] += 1
        return
    if strict is not None:
        counters['C08:must-accept judged'] += 1
        if not accepted:
            _viol('C08', 'online:must_accept:rejected', {'input': data.hex()[:400], 'enc': enc, 'error': repr(val)[:200]})
        elif val != strict:
            bad = sorted(k for k in set(val) | set(strict) if val.get(k, '<absent>') != strict.get(k, '<absent>'))
            _viol('C08', 'online:must_accept:wrong_reading', {'input': data.hex()[:400], 'enc': enc, 'keys': bad[:6]})
        return
    try:
        lo, tiling, derived_ok, flagged = refc.decode_lenient(data, cfg, enc, hexbm)
    except refc.Reject as ex:
        counters['C08:must-reject judged'] += 1
        if accepted:
            _viol('C08', 'online:must_reject:accepted', {'input': data.hex()[:400], 'enc': enc, 'reason': ex.reason})
        return
    except Exception:
        counters['C08:reference could not judge (configuration outside its model)'] += 1
        return
    counters['C08:dont-care judged'] += 1
    if accepted:
        want = {k: v for k, v in lo.items() if k == 'MTI' or (k.startswith('DE') and k[2:].isdigit())}
        got = {k: v for k, v in val.items() if k == 'MTI' or (k.startswith('DE') and k[2:].isdigit())}
        bad = [k for k in set(want) | set(got) if want.get(k) is not refc.UNSPECIFIED and got.get(k, '<absent>') != want.get(k, '<absent>')]
        if bad:
            _viol('C08', 'online:accepted_with_different_framing', {'input': data.hex()[:400], 'enc': enc, 'keys': sorted(bad)[:6]})


def install(report=None, families=FAMILIES):
    """Install the monitors of the named families on the imported cardutil.  Call after env.setup()."""
    global _report
    from cardutil import mciipm, iso8583
    from cardutil.config import config
    _report = report
    _enabled.clear()
    _enabled.update(families)
    if 'C04' in families:
        _mon_block1014(mciipm)
    if 'C05' in families:
        _mon_unblock1014(mciipm)
    if 'C03' in families:
        _mon_vbswriter(mciipm)
    if 'C09' in families:
        _mon_vbsreader(mciipm, lambda: config.get('MAX_VBS_RECORD_LENGTH', 6000))
    if {'C07', 'C08', 'C02'} & set(families):
        _mon_codec(iso8583, config['bit_config'])
    return counters
