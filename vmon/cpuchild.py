"""Child of props/c07.py 'cpu_guard' cases: decode each input in turn, announcing its index first (see cpuguard.py)."""
import json
import sys


def main():
    from . import env, msgwork
    env.setup()
    from cardutil import iso8583, CardutilError
    from cardutil.config import config
    msgwork.set_packaged(config['bit_config'])
    with open(sys.argv[1]) as f:
        items = json.load(f)
    for i, it in enumerate(items):
        print('at %d' % i, flush=True)
        try:
            iso8583.loads(bytes.fromhex(it['data']), encoding=it['enc'], hex_bitmap=it['hex'], iso_config=msgwork.cfg_of(it['cfg']))
            print('ok %d' % i, flush=True)
        except CardutilError:
            print('lib %d' % i, flush=True)
        except Exception as ex:      # noqa - reported by the parent
            print('escape %d %s' % (i, type(ex).__name__), flush=True)
    print('done', flush=True)


if __name__ == '__main__':
    main()
