"""
pytest plugin: run the repository's own test suite with the online monitors of vmon/hooks.py installed.

  cd <repo> && VMON_REPORT=/path/report.json PYTHONPATH=/verif /venv/bin/python -m pytest -p vmon.pytest_plugin -q -p no:cacheprovider

A monitor that fires here is either too strict or has found something the tests do not assert; the report lists every
firing with its witness.  The plugin changes no test outcome; it only sets a non-zero exit status when a monitor fired.
"""
import json
import os

_violations = []
_counters = None


def pytest_configure(config):
    global _counters
    os.environ.setdefault('VERIF_REPO', os.getcwd())
    from vmon import hooks
    fams = os.environ.get('VMON_MONITORS')
    fams = tuple(fams.split(',')) if fams else hooks.FAMILIES

    def report(family, mech, detail):
        test = os.environ.get('PYTEST_CURRENT_TEST', '?')
        if len(_violations) < 200:
            _violations.append({'family': family, 'mechanism': mech, 'detail': detail, 'test': test})
    _counters = hooks.install(report, fams)


def pytest_sessionfinish(session, exitstatus):
    out = {'violations': _violations, 'counters': dict(_counters or {}), 'pytest_exitstatus': int(exitstatus)}
    path = os.environ.get('VMON_REPORT')
    if path:
        with open(path, 'w') as f:
            json.dump(out, f, indent=1, default=repr)
    if _violations:
        session.exitstatus = 1


def pytest_terminal_summary(terminalreporter):
    tr = terminalreporter
    tr.write_line('vmon online monitors: %d firings; observed: %s' % (
        len(_violations), ', '.join('%s=%d' % kv for kv in sorted((_counters or {}).items()))))
    for v in _violations[:20]:
        tr.write_line('  MONITOR FIRED %s %s in %s: %s' % (v['family'], v['mechanism'], v['test'], json.dumps(v['detail'], default=repr)[:300]))
