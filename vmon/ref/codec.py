"""
Independent reference ISO8583 codec for the layout documented in cardutil (module docstrings of iso8583.py and
config.py, docs/, and the literal wire images pinned by the test fixtures).  Shares no code with cardutil.

  encode(msg, cfg, enc, hex_bitmap)         -> bytes                (raises Unrepresentable / RefError)
  decode_strict(data, cfg, enc, hex_bitmap) -> dict                 (raises Reject): the canonical language; every
                                                                    message it accepts MUST be accepted, with this dict
  decode_lenient(data, cfg, enc, hex_bitmap)-> (dict, tiling)       (raises Reject): the widest reading any correct
                                                                    decoder may have; everything it rejects MUST be rejected
  pack_pds(pds_items)                       -> list of carrier strings

Documented conventions used (each is pinned by a fixture in the repository's tests):
  * layout: MTI (4 chars in the text encoding) | bitmap 16 raw bytes or 32 lower-case ASCII hex chars | elements
  * bit 1 always set; bit n set iff element n present; elements in ascending order
  * a value of None / '' / b'' means "absent"; 0 is a value
  * FIXED text is left-justified, space padded to the width; numbers are zero padded to the width; LLVAR / LLLVAR carry a
    2 / 3 digit decimal count of the characters that follow; ICC data are raw bytes, never passed through the codec
  * PDS sub-elements: tag(4) length(3) value, ascending tag order, greedy packing into carriers of at most 999 characters
"""
import binascii
import datetime
import decimal
import re


class RefError(Exception):
    pass


class Unrepresentable(RefError):
    """The layout cannot carry this value (variable-length value longer than its prefix can count)."""


class Reject(RefError):
    def __init__(self, reason):
        super().__init__(reason)
        self.reason = reason


PREFIX = {'FIXED': 0, 'LLVAR': 2, 'LLLVAR': 3}


class _Unspecified:
    def __repr__(self):
        return '<unspecified>'


UNSPECIFIED = _Unspecified()     # a value the documentation does not define (never compared)
DIGITS = '0123456789'


def is_present(v):
    if v is None:
        return False
    if isinstance(v, (str, bytes)) and len(v) == 0:
        return False
    return True


def carriers_of(cfg):
    return sorted(int(b) for b, c in cfg.items() if c.get('field_processor') == 'PDS')


def pack_pds(items):
    """items: iterable of (tag:int, value:str).  Greedy, ascending tags, carriers of at most 999 characters."""
    out = []
    cur = ''
    for tag, value in sorted(items):
        piece = '%04d%03d%s' % (tag, len(value), value)
        if len(cur) + len(piece) > 999:
            out.append(cur)
            cur = ''
        cur += piece
    if cur:
        out.append(cur)
    return out


def parse_datetime_text(text):
    """Strings accepted on the encode side for datetime elements: ISO 'YYYY-MM-DD[ HH:MM[:SS]]' (also with 'T')."""
    t = text.strip().replace('T', ' ')
    for fmt in ('%Y-%m-%d %H:%M:%S', '%Y-%m-%d %H:%M', '%Y-%m-%d'):
        try:
            return datetime.datetime.strptime(t, fmt)
        except ValueError:
            pass
    raise RefError('unsupported date text %r' % text)


def render(c, value):
    """Typed python value -> text (str) or raw bytes, before padding/prefixing."""
    ptype = c.get('field_python_type')
    width = c.get('field_length', 0) or 0
    if ptype in ('int', 'long'):
        return '%0*d' % (width, int(value))
    if ptype == 'decimal':
        return format(decimal.Decimal(value), 'f').rjust(width, '0')
    if ptype == 'datetime':
        if not isinstance(value, datetime.datetime):
            value = parse_datetime_text(value)
        return value.strftime(c.get('field_date_format', '%y%m%d'))
    return value


def encode_field(c, value, enc):
    body = render(c, value)
    w = PREFIX[c['field_type']]
    if w == 0:
        width = c['field_length']
        if isinstance(body, bytes):
            return body[:width]
        return body[:width].ljust(width, ' ').encode(enc)
    raw = body if isinstance(body, bytes) else body.encode(enc)
    n = len(raw)            # "a decimal count followed by exactly that many bytes" (same as characters for single-byte codecs)
    if n >= 10 ** w:
        raise Unrepresentable('%d bytes cannot be counted by a %d digit prefix' % (n, w))
    return ('%0*d' % (w, n)).encode(enc) + raw


def resolve_pds(msg, cfg):
    """Message with its PDSxxxx entries packed into the carrier elements (documented: they overwrite the carriers)."""
    m = dict(msg)
    pds = [(int(k[3:]), v) for k, v in m.items() if k.startswith('PDS')]
    if pds:
        car = carriers_of(cfg)
        packed = pack_pds(pds)
        if len(packed) > len(car):
            raise RefError('PDS data need %d carriers, configuration has %d' % (len(packed), len(car)))
        for bit, s in zip(car, packed):
            m['DE%d' % bit] = s
    return m


def encode(msg, cfg, enc='latin_1', hex_bitmap=False):
    m = resolve_pds(msg, cfg)
    bits = [False] * 129
    bits[1] = True
    body = bytearray()
    for bit in range(2, 128):
        v = m.get('DE%d' % bit)
        if is_present(v):
            bits[bit] = True
            body += encode_field(cfg[str(bit)], v, enc)
    bm = bytearray(16)
    for bit in range(1, 129):
        if bits[bit]:
            bm[(bit - 1) // 8] |= 0x80 >> ((bit - 1) % 8)
    bitmap = bytes(bm).hex().encode('ascii') if hex_bitmap else bytes(bm)
    mti = m['MTI'].encode(enc) if m.get('MTI') else b''
    return mti + bitmap + bytes(body)


# -------------------------------------------------------------------------------------------------------------------
# derived entries
# -------------------------------------------------------------------------------------------------------------------
def mask(pan, ch='*'):
    return pan[:6] + ch * (len(pan) - 10) + pan[len(pan) - 4:]


def pds_entries(text, strict=True):
    out = {}
    p = 0
    while p < len(text):
        tag = text[p:p + 4]
        ln = text[p + 4:p + 7]
        if len(tag) < 4 or len(ln) < 3 or any(ch not in DIGITS for ch in ln) or any(ch not in DIGITS for ch in tag):
            raise Reject('PDS header malformed at %d' % p)
        n = int(ln)
        val = text[p + 7:p + 7 + n]
        if len(val) < n:
            raise Reject('PDS value overruns the carrier at %d' % p)
        out['PDS' + tag] = val
        p += 7 + n
    return out


def icc_entries(raw):
    out = {'ICC_DATA': raw.hex()}
    p = 0
    while p < len(raw):
        t = raw[p:p + 1]
        if t in (b'\x9f', b'\x5f'):
            t = raw[p:p + 2]
            if len(t) < 2:
                raise Reject('ICC two-byte tag cut short')
            p += 2
        else:
            p += 1
        if t == b'\x00':
            if raw[p:].strip(b'\x00'):
                raise Reject('data after the low-values ICC tag')
            break
        if p >= len(raw):
            raise Reject('ICC tag without length')
        n = raw[p]
        val = raw[p + 1:p + 1 + n]
        if len(val) < n:
            raise Reject('ICC value overruns the field')
        out['TAG' + t.hex().upper()] = val.hex()
        p += 1 + n
    return out


def de43_entries(text, pattern):
    if not pattern:
        return {}
    mt = re.match(pattern, text)
    if not mt:
        return {}
    d = mt.groupdict()
    if d.get('DE43_POSTCODE'):
        d['DE43_POSTCODE'] = d['DE43_POSTCODE'].rstrip()
    return d


def convert(c, text, strict):
    ptype = c.get('field_python_type')
    if ptype in ('int', 'long'):
        if strict and (not text or any(ch not in DIGITS for ch in text)):
            raise Reject('integer element is not plain digits')
        try:
            return int(text)
        except ValueError:
            raise Reject('integer element unreadable')
    if ptype == 'decimal':
        if strict and (not text or text.count('.') > 1 or any(ch not in DIGITS + '.' for ch in text)
                       or text in ('.',)):
            raise Reject('decimal element is not plain')
        try:
            v = decimal.Decimal(text)
        except (decimal.InvalidOperation, ValueError):
            raise Reject('decimal element unreadable')
        if strict and not v.is_finite():
            raise Reject('decimal element not finite')
        return v
    if ptype == 'datetime':
        fmt = c.get('field_date_format', '%y%m%d')
        try:
            v = datetime.datetime.strptime(text, fmt)
        except ValueError:
            raise Reject('date element unreadable')
        if strict and v.strftime(fmt) != text:
            raise Reject('date element not canonical')
        return v
    return text


def _header(data, hex_bitmap, strict):
    need = 36 if hex_bitmap else 20
    if len(data) < need:
        raise Reject('shorter than MTI + bitmap')
    mti_raw = data[:4]
    if hex_bitmap:
        hx = data[4:36]
        if strict and any(ch not in b'0123456789abcdef' for ch in hx):
            raise Reject('hex bitmap is not 32 lower-case hex characters')
        try:
            bm = binascii.unhexlify(hx)
        except (binascii.Error, ValueError):
            raise Reject('hex bitmap is not hex')
    else:
        bm = data[4:20]
    return mti_raw, bm, data[need:]


def _walk(data, cfg, enc, hex_bitmap, strict):
    mti_raw, bm, body = _header(data, hex_bitmap, strict)
    try:
        mti = mti_raw.decode(enc)
    except UnicodeError:
        raise Reject('MTI undecodable')
    if strict:
        if any(ch not in DIGITS for ch in mti):
            raise Reject('MTI is not four digits')
    else:
        try:
            int(mti)
        except ValueError:
            raise Reject('MTI is not a number')
    flagged = [bit for bit in range(1, 129) if bm[(bit - 1) // 8] & (0x80 >> ((bit - 1) % 8))]
    if strict and (1 not in flagged or 128 in flagged):
        raise Reject('bit 1 clear or bit 128 set')
    out = {'MTI': mti}
    tiling = []
    derived_ok = True
    p = 0
    for bit in flagged:
        if bit in (1, 128):
            continue
        c = cfg.get(str(bit))
        if not c:
            raise Reject('bit %d has no configuration' % bit)
        w = PREFIX[c['field_type']]
        if w:
            pre = body[p:p + w]
            if len(pre) < w:
                raise Reject('length prefix of DE%d cut short' % bit)
            try:
                pt = pre.decode(enc)
            except UnicodeError:
                raise Reject('length prefix of DE%d undecodable' % bit)
            if strict:
                if any(ch not in DIGITS for ch in pt):
                    raise Reject('length prefix of DE%d is not plain digits' % bit)
                n = int(pt)
            else:
                try:
                    n = int(pt)
                except ValueError:
                    raise Reject('length prefix of DE%d is not a number' % bit)
                if n < 0:
                    raise Reject('negative length for DE%d' % bit)
        else:
            n = c['field_length']
        raw = body[p + w:p + w + n]
        if len(raw) < n:
            raise Reject('DE%d runs past the end of the message' % bit)
        tiling.append((bit, p, w, n))
        p += w + n
        proc = c.get('field_processor')
        if proc == 'ICC':
            out['DE%d' % bit] = raw
            try:
                out.update(icc_entries(raw))
            except Reject:
                if strict:
                    raise
                derived_ok = False
            continue
        try:
            text = raw.decode(enc)
        except UnicodeError:
            raise Reject('DE%d undecodable' % bit)
        if proc == 'PAN':
            if len(text) < 10:
                # masking is defined for card numbers of 10 or more characters only
                if strict:
                    raise Reject('masked element shorter than 10 characters')
                out['DE%d' % bit] = UNSPECIFIED
                continue
            text = mask(text)
        elif proc == 'PAN-PREFIX':
            text = text[:9]
        out['DE%d' % bit] = convert(c, text, strict)
        if proc == 'PDS':
            try:
                out.update(pds_entries(text))
            except Reject:
                if strict:
                    raise
                derived_ok = False
        elif proc == 'DE43':
            out.update(de43_entries(text, c.get('field_processor_config')))
    if p != len(body):
        raise Reject('elements cover %d of %d message bytes' % (p, len(body)))
    return out, tiling, derived_ok, flagged


def decode_strict(data, cfg, enc='latin_1', hex_bitmap=False):
    return _walk(data, cfg, enc, hex_bitmap, True)[0]


def decode_lenient(data, cfg, enc='latin_1', hex_bitmap=False):
    """(dict, tiling, derived_ok, flagged bits).  When derived_ok is False only MTI/DE values may be compared."""
    return _walk(data, cfg, enc, hex_bitmap, False)


# -------------------------------------------------------------------------------------------------------------------
def selftest():
    """The literal wire images pinned by tests/test_iso8583.py and the module docstring, typed in here."""
    import sys
    sys.path.insert(0, '/repo') if False else None
    cfg = {
        '2': {'field_name': 'PAN', 'field_type': 'LLVAR', 'field_length': 0},
        '3': {'field_name': 'Processing code', 'field_type': 'FIXED', 'field_length': 6},
        '4': {'field_name': 'Amount', 'field_type': 'FIXED', 'field_length': 12, 'field_python_type': 'long'},
        '12': {'field_name': 'Date', 'field_type': 'FIXED', 'field_length': 12, 'field_python_type': 'datetime',
               'field_date_format': '%y%m%d%H%M%S'},
        '48': {'field_name': 'Additional', 'field_type': 'LLLVAR', 'field_length': 0, 'field_processor': 'PDS'},
        '55': {'field_name': 'ICC', 'field_type': 'LLLVAR', 'field_length': 255, 'field_processor': 'ICC'},
        '62': {'field_name': 'Additional 2', 'field_type': 'LLLVAR', 'field_length': 0, 'field_processor': 'PDS'},
        '100': {'field_name': 'Receiving', 'field_type': 'LLVAR', 'field_length': 11},
    }
    bm = bytes.fromhex('c0000000000000000000000000000000')
    # module docstring of cardutil.iso8583
    assert encode({'MTI': '1144', 'DE2': '4444555566667777'}, cfg) == b'1144' + bm + b'164444555566667777'
    assert encode({'MTI': '1144', 'DE2': '4444555566667777'}, cfg, hex_bitmap=True) == \
        b'1144c0000000000000000000000000000000164444555566667777'
    assert encode({'MTI': '1144', 'DE2': '4444555566667777'}, cfg, 'cp500') == \
        bytes.fromhex('f1f1f4f4') + bm + bytes.fromhex('f1f6f4f4f4f4f5f5f5f5f6f6f6f6f7f7f7f7')
    assert decode_strict(b'1144' + bm + b'164444555566667777', cfg) == {'MTI': '1144', 'DE2': '4444555566667777'}
    # tests/test_iso8583.py::test_dumps - DE2, DE3, DE48 with the secondary bitmap bit never set
    out = encode({'MTI': '1144', 'DE2': '4444555544445555', 'DE3': '111111', 'DE4': 9999,
                  'DE12': datetime.datetime(2015, 8, 15, 17, 15, 0)}, cfg)
    assert out == b'1144' + bytes.fromhex('f0100000000000000000000000000000') + \
        b'164444555544445555' + b'111111' + b'000000009999' + b'150815171500'
    back = decode_strict(out, cfg)
    assert back['DE4'] == 9999 and back['DE12'] == datetime.datetime(2015, 8, 15, 17, 15, 0)
    # PDS packing: tests/test_iso8583.py::test_pds_to_de_multiple_fields (two 900-character values -> two carriers)
    two = pack_pds([(1, 'A' * 900), (2, 'B' * 900)])
    assert two == ['0001900' + 'A' * 900, '0002900' + 'B' * 900]
    assert pack_pds([(23, 'NA'), (52, '123')]) == ['0023002NA0052003123']
    m = encode({'MTI': '1240', 'PDS0001': 'A' * 900, 'PDS0002': 'B' * 900}, cfg)
    d = decode_strict(m, cfg)
    assert d['PDS0001'] == 'A' * 900 and d['PDS0002'] == 'B' * 900 and d['DE48'].startswith('0001900') and 'DE62' in d
    # ICC: tests/test_iso8583.py::test_icc_to_dict
    icc = bytes.fromhex('9f26081122334455667788' + '9f270180' + '5f2a020036' + '8407a0000000041010')
    e = icc_entries(icc)
    assert e['TAG9F26'] == '1122334455667788' and e['TAG9F27'] == '80' and e['TAG5F2A'] == '0036' and e['TAG84'] == 'a0000000041010'
    assert icc_entries(bytes.fromhex('9f270180' + '0000'))['TAG9F27'] == '80'
    # bit above 64
    m = encode({'MTI': '1644', 'DE100': '12345'}, cfg)
    assert m[4:20] == bytes.fromhex('80000000000000000000000010000000') and m[20:] == b'0512345'
    assert decode_strict(m, cfg) == {'MTI': '1644', 'DE100': '12345'}
    # refusal
    try:
        encode({'MTI': '1144', 'DE2': '1' * 100}, cfg)
        raise AssertionError('over-length LLVAR encoded')
    except Unrepresentable:
        pass
    # lenient vs strict
    bad = b'1144' + bm + b'-2' + b'3456'
    for f in (decode_strict, decode_lenient):
        try:
            f(bad, cfg)
            raise AssertionError('negative length accepted by the reference')
        except Reject:
            pass
    sp = b'1144' + bytes.fromhex('40000000000000000000000000000000') + b' 3abc'
    try:
        decode_strict(sp, cfg)
        raise AssertionError
    except Reject:
        pass
    assert decode_lenient(sp, cfg)[0] == {'MTI': '1144', 'DE2': 'abc'}
    return True
