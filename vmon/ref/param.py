"""
Reference builder for Mastercard IPM parameter extract files (the layout documented in cardutil.config and
exercised by tests/test_mciipm.py::test_ipm_param_reader*).  It PLACES generated column values at the configured
character positions; the expected result is simply the generated values - no slicing logic is shared with cardutil.

Expanded row   : [0:10] effective timestamp | [10] active/inactive code | [11:19] table id | columns at their positions
Compressed row : [0:7]  effective timestamp | [7]  active/inactive code | [8:11] table sub id | columns 8 to the left
Index row      : expanded row of table IP0000T1: [19:27] indexed table id ... [243:246] table sub id
Index trailer  : a record starting 'TRAILER RECORD IP0000T1'
"""
INDEX_TABLE = 'IP0000T1'


def place(width_total, pieces, filler):
    """pieces: list of (start, text).  Returns a string of width_total with every piece at its position, gaps = filler."""
    row = list((filler * (width_total // len(filler) + 1))[:width_total])
    for start, text in pieces:
        row[start:start + len(text)] = list(text)
    return ''.join(row)


def row_width(layout):
    return max([19] + [c['end'] for c in layout.values()])


def expanded_row(table, ts10, code, values, layout, filler='.', extra=0):
    pieces = [(0, ts10), (10, code), (11, table)] + [(layout[k]['start'], v) for k, v in values.items()]
    return place(row_width(layout) + extra, pieces, filler)


def compressed_row(sub_id, ts7, code, values, layout, filler='.', extra=0):
    pieces = [(0, ts7), (7, code), (8, sub_id)] + [(layout[k]['start'] - 8, v) for k, v in values.items()]
    return place(row_width(layout) - 8 + extra, pieces, filler)


def index_row(table, sub_id, ts10='2011101414', code='A', descr=' TABLE'):
    pieces = [(0, ts10), (10, code), (11, INDEX_TABLE), (19, table), (27, descr), (243, sub_id)]
    return place(246, pieces, '.')


def trailer_row(count=0):
    return ('TRAILER RECORD %s  %08d' % (INDEX_TABLE, count)).ljust(80)


def expected_dict(table, ts, code, values):
    d = {'table_id': table, 'effective_timestamp': ts, 'active_inactive_code': code}
    d.update(values)
    return d


def selftest():
    """The two literal rows of tests/test_mciipm.py (IP0040T1, compressed) and the index rows used there."""
    idx = index_row('IP0040T1', '036', ts10='2014101414', descr=' ACCOUNT RANGE TABLE        ')
    literal = ('2014101414AIP0000T1IP0040T1 ACCOUNT RANGE TABLE        ' + 188 * '.' + '036')
    assert idx == literal, (idx, literal)
    assert idx[11:19] == 'IP0000T1' and idx[19:27] == 'IP0040T1' and idx[243:246] == '036'
    layout = {'issuer_account_range_low': {'start': 19, 'end': 38}, 'gcms_product_id': {'start': 38, 'end': 41},
              'issuer_account_range_high': {'start': 41, 'end': 60}}
    vals = {'issuer_account_range_low': '5116545113000000000', 'gcms_product_id': 'MCC', 'issuer_account_range_high': '5116545113999999999'}
    row = compressed_row('036', '1711114', 'A', vals, layout)
    # the literal compressed row in the repository's test starts like this
    assert row.startswith('1711114A0365116545113000000000MCC5116545113999999999'), row
    erow = expanded_row('IP0040T1', '2017111400', 'A', vals, layout)
    assert erow[:19] == '2017111400AIP0040T1' and erow[19:38] == '5116545113000000000' and erow[38:41] == 'MCC'
    assert trailer_row().startswith('TRAILER RECORD IP0000T1')
    return True
