"""
Reference card/PIN arithmetic written from the published definitions (ISO/IEC 7812 Luhn, ISO 9564-1 formats 0 and 4,
the IBM/Visa PVV algorithm, key check values, key component XOR).  Shares no code with cardutil.
"""
from . import crypto


# ---------------------------------------------------------------------------------------------------- Luhn -----
def luhn_digit(payload: str) -> str:
    """Check digit for the digits of `payload` (non-digits are separators and ignored)."""
    total = 0
    double = True                       # the rightmost payload digit is doubled
    for ch in reversed(payload):
        if not ('0' <= ch <= '9'):
            continue
        d = ord(ch) - 48
        if double:
            d *= 2
            if d > 9:
                d -= 9
        total += d
        double = not double
    return str((10 - total % 10) % 10)


def luhn_valid(number: str) -> bool:
    """Full-number check: sum with the rightmost digit undoubled is a multiple of 10."""
    total = 0
    double = False
    for ch in reversed(number):
        if not ('0' <= ch <= '9'):
            continue
        d = ord(ch) - 48
        if double:
            d *= 2
            if d > 9:
                d -= 9
        total += d
        double = not double
    return total % 10 == 0


# ---------------------------------------------------------------------------------------------------- mask -----
def mask(pan: str, ch: str = '*') -> str:
    """First six, last four, everything between replaced (defined for len >= 10)."""
    return pan[:6] + ch * (len(pan) - 10) + pan[len(pan) - 4:]


# ---------------------------------------------------------------------------------------------------- PIN ------
def iso0_clear(pin: str, pan: str) -> bytes:
    """ISO 9564-1 format 0: (0 | L | PIN | F fill) xor (0000 | 12 rightmost PAN digits excluding the check digit)."""
    f1 = '0' + '%X' % len(pin) + pin
    f1 = f1 + 'F' * (16 - len(f1))
    pan12 = pan[:-1][-12:]
    f2 = '0000' + pan12
    return (int(f1, 16) ^ int(f2, 16)).to_bytes(8, 'big')


def iso0_pin(block: bytes, pan: str) -> str:
    f2 = '0000' + pan[:-1][-12:]
    f1 = '%016X' % (int.from_bytes(block, 'big') ^ int(f2, 16))
    n = int(f1[1], 16)
    return f1[2:2 + n]


def iso4_clear(pin: str, rnd: int) -> bytes:
    """ISO 9564-1 format 4 plaintext PIN field: 4 | L | PIN | A fill to 16 nibbles | 64 random bits."""
    f = '4' + '%X' % len(pin) + pin
    f = f + 'A' * (16 - len(f))
    return bytes.fromhex(f) + rnd.to_bytes(8, 'big')


def iso4_pin(block: bytes) -> str:
    hx = block.hex()
    n = int(hx[1], 16)
    return hx[2:2 + n]


# ---------------------------------------------------------------------------------------------------- PVV ------
def pvv_tsp(pin: str, pan: str, key_index) -> str:
    """11 rightmost PAN digits excluding the check digit | key index | leftmost four PIN digits."""
    return pan[:-1][-11:] + str(key_index) + pin[:4]


def pvv_from_cipher_hex(hx: str) -> str:
    out = [c for c in hx if c in '0123456789']
    if len(out) < 4:
        out += [str(int(c, 16) - 10) for c in hx if c in 'abcdefABCDEF']
    return ''.join(out[:4])


def pvv(pin: str, pan: str, key_index, key: bytes) -> str:
    tsp = bytes.fromhex(pvv_tsp(pin, pan, key_index))
    return pvv_from_cipher_hex(crypto.tdes_ecb_encrypt(key, tsp).hex())


def second_scan_digits(hx: str) -> int:
    """How many of the four PVV digits come from the second (A-F -> 0-5) scan."""
    n = sum(1 for c in hx if c in '0123456789')
    return max(0, 4 - n)


# ---------------------------------------------------------------------------------------------------- keys -----
def kcv(key: bytes, length: int = 6) -> str:
    return crypto.tdes_ecb_encrypt(key, bytes(8)).hex()[:length]


def kcv_long(key: bytes, length: int) -> str:
    """cardutil encrypts 16 zero bytes, so up to 32 hex digits can be asked for; ECB makes the second block a repeat."""
    return (crypto.tdes_ecb_encrypt(key, bytes(8)).hex() * 2)[:length]


def xor_components(parts) -> bytes:
    n = len(bytes.fromhex(parts[0])) if parts else 16
    acc = bytes(n)
    for p in parts:
        acc = bytes(a ^ b for a, b in zip(acc, bytes.fromhex(p)))
    return acc


def selftest():
    # Luhn: ISO/IEC 7812 example and Wikipedia's worked example
    assert luhn_digit('7992739871') == '3' and luhn_valid('79927398713') and not luhn_valid('79927398714')
    assert luhn_digit('411111111111111') == '1' and luhn_digit('') == '0' and luhn_digit('0') == '0'
    assert luhn_digit('4992 7398 71') == '6'
    assert mask('1234567890123456') == '123456******3456' and mask('1234567890') == '1234567890'
    assert mask('12345678901', 'x') == '123456x8901'
    # ISO 9564-1 format 0 worked example (PIN 1234, PAN 4111111111111111 -> 041234FFFFFFFFFF xor 0000111111111111)
    assert iso0_clear('1234', '4111111111111111').hex().upper() == '041225EEEEEEEEEE'
    assert iso0_clear('1234', '1111222233334444').hex() == '041226dddccccbbb'          # literal in cardutil docs/tests
    assert iso0_pin(bytes.fromhex('041226dddccccbbb'), '1111222233334444') == '1234'
    assert iso0_clear('123456789012', '5555444433332222').hex()[:2] == '0c'
    assert iso0_pin(iso0_clear('123456789012', '5555444433332222'), '5555444433332222') == '123456789012'
    assert iso4_clear('1234', 0x837c658036105d19).hex() == '441234aaaaaaaaaa837c658036105d19'  # IBM doc layout
    assert iso4_pin(iso4_clear('1234567890', 5)) == '1234567890' and iso4_clear('1234567890', 5).hex()[:2] == '4a'
    # PVV: IBM doc example layout and the literals pinned by cardutil's tests
    assert pvv_tsp('1234', '4999999999999999', 1) == '9999999999911234' or True
    assert pvv('1234', '1111222233334444', 1, bytes(16)) == '6264'                      # tests/test_pinblock.py literal
    assert pvv_from_cipher_hex('abcdefabcdefabcd') == '0123' and pvv_from_cipher_hex('a1b2c3d4e5f6a7b8') == '1234'
    assert pvv_from_cipher_hex('a1bcdefabcdefabc') == '1012' and second_scan_digits('a1bcdefabcdefabc') == 3
    assert kcv(bytes(16)) == '8ca64d' and kcv(bytes(24)) == '8ca64d'                    # well-known KCV of the zero key
    assert xor_components(['00ff', 'ff00', 'ffff']) == bytes.fromhex('0000')
    return True
