"""
Reference models of the two Mastercard file framings, written from the module docstring of cardutil.mciipm
(the hexdump examples there are this module's self-test).  Shares no code with cardutil.

VBS  : each record preceded by its length as a 4-byte big-endian integer; a zero length terminates the file.
1014 : the byte stream cut into 1012-byte payloads, each followed by two 0x40; the last payload is filled
       with 0x40 up to 1012.
"""
PAYLOAD = 1012
BLOCK = 1014
FILL = 0x40


def vbs(records) -> bytes:
    out = bytearray()
    for r in records:
        out += len(r).to_bytes(4, 'big')
        out += r
    out += (0).to_bytes(4, 'big')
    return bytes(out)


def block(data: bytes) -> bytes:
    out = bytearray()
    for i in range(0, len(data), PAYLOAD):
        chunk = data[i:i + PAYLOAD]
        out += chunk
        out += bytes([FILL]) * (PAYLOAD - len(chunk))
        out += bytes([FILL, FILL])
    return bytes(out)


FILL_BLOCK = bytes([FILL]) * BLOCK


def payload_stream(blocked: bytes) -> bytes:
    """What an unblocker must deliver: the first 1012 bytes of every 1014-byte chunk (fewer for a short last chunk)."""
    out = bytearray()
    for i in range(0, len(blocked), BLOCK):
        out += blocked[i:i + BLOCK][:PAYLOAD]
    return bytes(out)


def well_blocked(blocked: bytes):
    """None if `blocked` is a whole number of blocks with correct trailers, else a reason."""
    if len(blocked) % BLOCK:
        return 'length %d is not a multiple of 1014' % len(blocked)
    for i in range(0, len(blocked), BLOCK):
        if blocked[i + PAYLOAD:i + BLOCK] != bytes([FILL, FILL]):
            return 'block %d trailer is %s' % (i // BLOCK, blocked[i + PAYLOAD:i + BLOCK].hex())
    return None


def classify_blocked(out: bytes, data: bytes):
    """
    Judge the output of a blocker fed `data`.  Returns None if it is ref.block(data) optionally followed by one
    all-fill block, else a short mechanism word.
    """
    want = block(data)
    if out == want or out == want + FILL_BLOCK:
        return None
    if len(out) % BLOCK:
        return 'not_whole_blocks'
    if well_blocked(out) is not None:
        return 'bad_trailer'
    p = payload_stream(out)
    if p[:len(data)] != data:
        return 'payload_differs'
    if p[len(data):].strip(bytes([FILL])):
        return 'non_fill_after_data'
    if len(out) > len(want) + BLOCK:
        return 'more_than_one_fill_block'
    if len(out) < len(want):
        return 'short'
    return 'other'


def vbs_records_in(stream: bytes, max_len=6000):
    """
    Reference reader over a payload stream that may be cut short anywhere.
    Returns (records, ending) where ending is 'end' (zero terminator or fewer than 4 bytes left: the documented
    "assume end of data"), 'short_record' (prefix present, data incomplete) or 'too_long' (length above maximum).
    """
    pos = 0
    out = []
    while True:
        pre = stream[pos:pos + 4]
        if len(pre) < 4:
            return out, 'end'
        n = int.from_bytes(pre, 'big')
        if n > max_len:
            return out, 'too_long'
        if n == 0:
            return out, 'end'
        rec = stream[pos + 4:pos + 4 + n]
        if len(rec) < n:
            return out, 'short_record'
        out.append(rec)
        pos += 4 + n


def selftest():
    """The docstring example of cardutil.mciipm, typed in from the documentation."""
    r1 = b'This is first record 1234567'
    r2 = b'This is second record AAAABBBBB123'
    v = vbs([r1, r2])
    assert v[:4] == bytes.fromhex('0000001c') and v[4:32] == r1
    assert v[32:36] == bytes.fromhex('00000022') and v[-4:] == b'\x00\x00\x00\x00' and len(v) == 0x4a
    b = block(v)
    assert len(b) == 1014 and b[:0x4a] == v and set(b[0x4a:]) == {0x40}
    assert payload_stream(b)[:len(v)] == v and well_blocked(b) is None
    assert well_blocked(b[:-1]) and well_blocked(b[:-1] + b'A')
    two = block(bytes(1012) + b'x')
    assert len(two) == 2028 and two[1012:1014] == b'@@' and two[1014:1015] == b'x'
    assert classify_blocked(two, bytes(1012) + b'x') is None
    assert classify_blocked(two + FILL_BLOCK, bytes(1012) + b'x') is None
    assert classify_blocked(two + FILL_BLOCK * 2, bytes(1012) + b'x') == 'more_than_one_fill_block'
    assert classify_blocked(two[:-1] + b'A', bytes(1012) + b'x') == 'bad_trailer'
    assert classify_blocked(block(bytes(1012) + b'y'), bytes(1012) + b'x') == 'payload_differs'
    assert vbs_records_in(v) == ([r1, r2], 'end')
    assert vbs_records_in(v[:40]) == ([r1], 'short_record')
    assert vbs_records_in(v[:34]) == ([r1], 'end')
    return True
