"""
From-scratch DES / TDES-ECB (FIPS 46-3, SP 800-67) and AES-ECB (FIPS 197) used as the oracle for C13/C14.
Pure Python, no dependency on `cryptography`.  selftest() checks published known answers and (when available)
cross-checks 200 random blocks against `cryptography`; a disagreement there means THIS file is wrong.
"""

# ------------------------------------------------------------------ DES ------------------------------------------
IP = [58, 50, 42, 34, 26, 18, 10, 2, 60, 52, 44, 36, 28, 20, 12, 4, 62, 54, 46, 38, 30, 22, 14, 6, 64, 56, 48, 40, 32, 24, 16, 8,
      57, 49, 41, 33, 25, 17, 9, 1, 59, 51, 43, 35, 27, 19, 11, 3, 61, 53, 45, 37, 29, 21, 13, 5, 63, 55, 47, 39, 31, 23, 15, 7]
FP = [40, 8, 48, 16, 56, 24, 64, 32, 39, 7, 47, 15, 55, 23, 63, 31, 38, 6, 46, 14, 54, 22, 62, 30, 37, 5, 45, 13, 53, 21, 61, 29,
      36, 4, 44, 12, 52, 20, 60, 28, 35, 3, 43, 11, 51, 19, 59, 27, 34, 2, 42, 10, 50, 18, 58, 26, 33, 1, 41, 9, 49, 17, 57, 25]
E = [32, 1, 2, 3, 4, 5, 4, 5, 6, 7, 8, 9, 8, 9, 10, 11, 12, 13, 12, 13, 14, 15, 16, 17,
     16, 17, 18, 19, 20, 21, 20, 21, 22, 23, 24, 25, 24, 25, 26, 27, 28, 29, 28, 29, 30, 31, 32, 1]
P = [16, 7, 20, 21, 29, 12, 28, 17, 1, 15, 23, 26, 5, 18, 31, 10, 2, 8, 24, 14, 32, 27, 3, 9, 19, 13, 30, 6, 22, 11, 4, 25]
PC1 = [57, 49, 41, 33, 25, 17, 9, 1, 58, 50, 42, 34, 26, 18, 10, 2, 59, 51, 43, 35, 27, 19, 11, 3, 60, 52, 44, 36,
       63, 55, 47, 39, 31, 23, 15, 7, 62, 54, 46, 38, 30, 22, 14, 6, 61, 53, 45, 37, 29, 21, 13, 5, 28, 20, 12, 4]
PC2 = [14, 17, 11, 24, 1, 5, 3, 28, 15, 6, 21, 10, 23, 19, 12, 4, 26, 8, 16, 7, 27, 20, 13, 2,
       41, 52, 31, 37, 47, 55, 30, 40, 51, 45, 33, 48, 44, 49, 39, 56, 34, 53, 46, 42, 50, 36, 29, 32]
SHIFTS = [1, 1, 2, 2, 2, 2, 2, 2, 1, 2, 2, 2, 2, 2, 2, 1]
SBOX = [
    [14, 4, 13, 1, 2, 15, 11, 8, 3, 10, 6, 12, 5, 9, 0, 7, 0, 15, 7, 4, 14, 2, 13, 1, 10, 6, 12, 11, 9, 5, 3, 8,
     4, 1, 14, 8, 13, 6, 2, 11, 15, 12, 9, 7, 3, 10, 5, 0, 15, 12, 8, 2, 4, 9, 1, 7, 5, 11, 3, 14, 10, 0, 6, 13],
    [15, 1, 8, 14, 6, 11, 3, 4, 9, 7, 2, 13, 12, 0, 5, 10, 3, 13, 4, 7, 15, 2, 8, 14, 12, 0, 1, 10, 6, 9, 11, 5,
     0, 14, 7, 11, 10, 4, 13, 1, 5, 8, 12, 6, 9, 3, 2, 15, 13, 8, 10, 1, 3, 15, 4, 2, 11, 6, 7, 12, 0, 5, 14, 9],
    [10, 0, 9, 14, 6, 3, 15, 5, 1, 13, 12, 7, 11, 4, 2, 8, 13, 7, 0, 9, 3, 4, 6, 10, 2, 8, 5, 14, 12, 11, 15, 1,
     13, 6, 4, 9, 8, 15, 3, 0, 11, 1, 2, 12, 5, 10, 14, 7, 1, 10, 13, 0, 6, 9, 8, 7, 4, 15, 14, 3, 11, 5, 2, 12],
    [7, 13, 14, 3, 0, 6, 9, 10, 1, 2, 8, 5, 11, 12, 4, 15, 13, 8, 11, 5, 6, 15, 0, 3, 4, 7, 2, 12, 1, 10, 14, 9,
     10, 6, 9, 0, 12, 11, 7, 13, 15, 1, 3, 14, 5, 2, 8, 4, 3, 15, 0, 6, 10, 1, 13, 8, 9, 4, 5, 11, 12, 7, 2, 14],
    [2, 12, 4, 1, 7, 10, 11, 6, 8, 5, 3, 15, 13, 0, 14, 9, 14, 11, 2, 12, 4, 7, 13, 1, 5, 0, 15, 10, 3, 9, 8, 6,
     4, 2, 1, 11, 10, 13, 7, 8, 15, 9, 12, 5, 6, 3, 0, 14, 11, 8, 12, 7, 1, 14, 2, 13, 6, 15, 0, 9, 10, 4, 5, 3],
    [12, 1, 10, 15, 9, 2, 6, 8, 0, 13, 3, 4, 14, 7, 5, 11, 10, 15, 4, 2, 7, 12, 9, 5, 6, 1, 13, 14, 0, 11, 3, 8,
     9, 14, 15, 5, 2, 8, 12, 3, 7, 0, 4, 10, 1, 13, 11, 6, 4, 3, 2, 12, 9, 5, 15, 10, 11, 14, 1, 7, 6, 0, 8, 13],
    [4, 11, 2, 14, 15, 0, 8, 13, 3, 12, 9, 7, 5, 10, 6, 1, 13, 0, 11, 7, 4, 9, 1, 10, 14, 3, 5, 12, 2, 15, 8, 6,
     1, 4, 11, 13, 12, 3, 7, 14, 10, 15, 6, 8, 0, 5, 9, 2, 6, 11, 13, 8, 1, 4, 10, 7, 9, 5, 0, 15, 14, 2, 3, 12],
    [13, 2, 8, 4, 6, 15, 11, 1, 10, 9, 3, 14, 5, 0, 12, 7, 1, 15, 13, 8, 10, 3, 7, 4, 12, 5, 6, 11, 0, 14, 9, 2,
     7, 11, 4, 1, 9, 12, 14, 2, 0, 6, 10, 13, 15, 3, 5, 8, 2, 1, 14, 7, 4, 10, 8, 13, 15, 12, 9, 0, 3, 5, 6, 11],
]


def _permute(value, table, width):
    out = 0
    for pos in table:
        out = (out << 1) | ((value >> (width - pos)) & 1)
    return out


_subkey_cache = {}


def _subkeys(key8: bytes):
    ks = _subkey_cache.get(key8)
    if ks is not None:
        return ks
    k = _permute(int.from_bytes(key8, 'big'), PC1, 64)
    c, d = k >> 28, k & 0xFFFFFFF
    ks = []
    for s in SHIFTS:
        c = ((c << s) | (c >> (28 - s))) & 0xFFFFFFF
        d = ((d << s) | (d >> (28 - s))) & 0xFFFFFFF
        ks.append(_permute((c << 28) | d, PC2, 56))
    if len(_subkey_cache) > 4096:
        _subkey_cache.clear()
    _subkey_cache[key8] = ks
    return ks


def _f(r, k):
    x = _permute(r, E, 32) ^ k
    out = 0
    for i in range(8):
        six = (x >> (42 - 6 * i)) & 0x3F
        row = ((six >> 4) & 2) | (six & 1)
        col = (six >> 1) & 0xF
        out = (out << 4) | SBOX[i][row * 16 + col]
    return _permute(out, P, 32)


def _des_block(block8: bytes, key8: bytes, decrypt=False) -> bytes:
    ks = _subkeys(key8)
    if decrypt:
        ks = ks[::-1]
    v = _permute(int.from_bytes(block8, 'big'), IP, 64)
    left, right = v >> 32, v & 0xFFFFFFFF
    for k in ks:
        left, right = right, left ^ _f(right, k)
    return _permute((right << 32) | left, FP, 64).to_bytes(8, 'big')


def des_encrypt_block(key8, block8):
    return _des_block(block8, key8, False)


def des_decrypt_block(key8, block8):
    return _des_block(block8, key8, True)


def _tdes_keys(key: bytes):
    if len(key) == 8:
        return key, key, key
    if len(key) == 16:
        return key[:8], key[8:], key[:8]
    if len(key) == 24:
        return key[:8], key[8:16], key[16:]
    raise ValueError('TDES key must be 8, 16 or 24 bytes')


def tdes_ecb_encrypt(key: bytes, data: bytes) -> bytes:
    if len(data) % 8:
        raise ValueError('data not a multiple of 8 bytes')
    k1, k2, k3 = _tdes_keys(key)
    out = bytearray()
    for i in range(0, len(data), 8):
        b = data[i:i + 8]
        out += _des_block(_des_block(_des_block(b, k1), k2, True), k3)
    return bytes(out)


def tdes_ecb_decrypt(key: bytes, data: bytes) -> bytes:
    if len(data) % 8:
        raise ValueError('data not a multiple of 8 bytes')
    k1, k2, k3 = _tdes_keys(key)
    out = bytearray()
    for i in range(0, len(data), 8):
        b = data[i:i + 8]
        out += _des_block(_des_block(_des_block(b, k3, True), k2), k1, True)
    return bytes(out)


# ------------------------------------------------------------------ AES ------------------------------------------
def _xtime(a):
    a <<= 1
    return (a ^ 0x11B) & 0xFF if a & 0x100 else a


def _gmul(a, b):
    r = 0
    while b:
        if b & 1:
            r ^= a
        a = _xtime(a)
        b >>= 1
    return r


def _build_sbox():
    inv = [0] * 256
    for a in range(1, 256):
        for b in range(1, 256):
            if _gmul(a, b) == 1:
                inv[a] = b
                break
    sbox = [0] * 256
    for a in range(256):
        x = inv[a]
        y = x
        for _ in range(4):
            x = ((x << 1) | (x >> 7)) & 0xFF
            y ^= x
        sbox[a] = y ^ 0x63
    inv_sbox = [0] * 256
    for a, s in enumerate(sbox):
        inv_sbox[s] = a
    return sbox, inv_sbox


_AES_S, _AES_IS = _build_sbox()
_M2 = [_gmul(a, 2) for a in range(256)]
_M3 = [_gmul(a, 3) for a in range(256)]
_M9 = [_gmul(a, 9) for a in range(256)]
_M11 = [_gmul(a, 11) for a in range(256)]
_M13 = [_gmul(a, 13) for a in range(256)]
_M14 = [_gmul(a, 14) for a in range(256)]
_aes_key_cache = {}


def _expand(key: bytes):
    rk = _aes_key_cache.get(key)
    if rk is not None:
        return rk
    nk = len(key) // 4
    if len(key) not in (16, 24, 32):
        raise ValueError('AES key must be 16, 24 or 32 bytes')
    nr = nk + 6
    w = [list(key[4 * i:4 * i + 4]) for i in range(nk)]
    rcon = 1
    for i in range(nk, 4 * (nr + 1)):
        t = list(w[i - 1])
        if i % nk == 0:
            t = t[1:] + t[:1]
            t = [_AES_S[b] for b in t]
            t[0] ^= rcon
            rcon = _xtime(rcon)
        elif nk > 6 and i % nk == 4:
            t = [_AES_S[b] for b in t]
        w.append([a ^ b for a, b in zip(w[i - nk], t)])
    rk = [sum(w[4 * r:4 * r + 4], []) for r in range(nr + 1)]
    if len(_aes_key_cache) > 1024:
        _aes_key_cache.clear()
    _aes_key_cache[key] = rk
    return rk


def _aes_enc_block(rk, block):
    s = [b ^ k for b, k in zip(block, rk[0])]
    nr = len(rk) - 1
    for r in range(1, nr + 1):
        s = [_AES_S[b] for b in s]
        # ShiftRows: state is column-major, s[4*c + r]
        s = [s[(4 * (c + row) + row) % 16] for c in range(4) for row in range(4)]
        if r != nr:
            t = []
            for c in range(4):
                a0, a1, a2, a3 = s[4 * c:4 * c + 4]
                t += [_M2[a0] ^ _M3[a1] ^ a2 ^ a3, a0 ^ _M2[a1] ^ _M3[a2] ^ a3,
                      a0 ^ a1 ^ _M2[a2] ^ _M3[a3], _M3[a0] ^ a1 ^ a2 ^ _M2[a3]]
            s = t
        s = [b ^ k for b, k in zip(s, rk[r])]
    return bytes(s)


def _aes_dec_block(rk, block):
    nr = len(rk) - 1
    s = [b ^ k for b, k in zip(block, rk[nr])]
    for r in range(nr - 1, -1, -1):
        # InvShiftRows
        s = [s[(4 * (c - row) + row) % 16] for c in range(4) for row in range(4)]
        s = [_AES_IS[b] for b in s]
        s = [b ^ k for b, k in zip(s, rk[r])]
        if r != 0:
            t = []
            for c in range(4):
                a0, a1, a2, a3 = s[4 * c:4 * c + 4]
                t += [_M14[a0] ^ _M11[a1] ^ _M13[a2] ^ _M9[a3], _M9[a0] ^ _M14[a1] ^ _M11[a2] ^ _M13[a3],
                      _M13[a0] ^ _M9[a1] ^ _M14[a2] ^ _M11[a3], _M11[a0] ^ _M13[a1] ^ _M9[a2] ^ _M14[a3]]
            s = t
    return bytes(s)


def aes_ecb_encrypt(key: bytes, data: bytes) -> bytes:
    if len(data) % 16:
        raise ValueError('data not a multiple of 16 bytes')
    rk = _expand(key)
    return b''.join(_aes_enc_block(rk, data[i:i + 16]) for i in range(0, len(data), 16))


def aes_ecb_decrypt(key: bytes, data: bytes) -> bytes:
    if len(data) % 16:
        raise ValueError('data not a multiple of 16 bytes')
    rk = _expand(key)
    return b''.join(_aes_dec_block(rk, data[i:i + 16]) for i in range(0, len(data), 16))


# ------------------------------------------------------------------ self-test ------------------------------------
def selftest(cross_check=True):
    h = bytes.fromhex
    # DES: the classic worked example (Grabbe) and FIPS 81 / NBS validation vectors
    assert des_encrypt_block(h('133457799BBCDFF1'), h('0123456789ABCDEF')) == h('85E813540F0AB405')
    assert des_encrypt_block(h('0123456789ABCDEF'), h('4E6F772069732074')) == h('3FA40E8A984D4815')   # FIPS 81 'Now is t'
    assert des_encrypt_block(h('0101010101010101'), h('8000000000000000')) == h('95F8A5E5DD31D900')   # NBS SP 500-20
    assert des_encrypt_block(h('8001010101010101'), h('0000000000000000')) == h('95A8D72813DAA94D')
    assert des_decrypt_block(h('133457799BBCDFF1'), h('85E813540F0AB405')) == h('0123456789ABCDEF')
    # TDES: SP 800-67 / NIST TDES example (3-key) "The quic"
    k3 = h('0123456789ABCDEF23456789ABCDEF01456789ABCDEF0123')
    assert tdes_ecb_encrypt(k3, h('5468652071756663')) == h('A826FD8CE53B855F')
    assert tdes_ecb_decrypt(k3, h('A826FD8CE53B855F')) == h('5468652071756663')
    # two-key with K1 == K2 degenerates to single DES
    assert tdes_ecb_encrypt(h('133457799BBCDFF1') * 2, h('0123456789ABCDEF')) == h('85E813540F0AB405')
    # AES: FIPS-197 Appendix C
    pt = h('00112233445566778899aabbccddeeff')
    assert aes_ecb_encrypt(h('000102030405060708090a0b0c0d0e0f'), pt) == h('69c4e0d86a7b0430d8cdb78070b4c55a')
    assert aes_ecb_encrypt(h('000102030405060708090a0b0c0d0e0f1011121314151617'), pt) == h('dda97ca4864cdfe06eaf70a0ec0d7191')
    assert aes_ecb_encrypt(h('000102030405060708090a0b0c0d0e0f101112131415161718191a1b1c1d1e1f'), pt) == \
        h('8ea2b7ca516745bfeafc49904b496089')
    assert aes_ecb_decrypt(h('000102030405060708090a0b0c0d0e0f'), h('69c4e0d86a7b0430d8cdb78070b4c55a')) == pt
    # FIPS-197 Appendix B
    assert aes_ecb_encrypt(h('2b7e151628aed2a6abf7158809cf4f3c'), h('3243f6a8885a308d313198a2e0370734')) == \
        h('3925841d02dc09fbdc118597196a0b32')
    assert _AES_S[0x00] == 0x63 and _AES_S[0x53] == 0xED
    if cross_check:
        try:
            from cryptography.hazmat.primitives.ciphers import Cipher, algorithms, modes
            from cryptography.hazmat.decrepit.ciphers import algorithms as dalg
        except Exception:
            return True
        import random
        import warnings
        warnings.filterwarnings('ignore')
        rng = random.Random(20260926)
        for i in range(200):
            kl = rng.choice([16, 24])
            key = rng.randbytes(kl)
            data = rng.randbytes(8 * rng.randint(1, 2))
            enc = Cipher(dalg.TripleDES(key), modes.ECB()).encryptor()
            assert enc.update(data) + enc.finalize() == tdes_ecb_encrypt(key, data), 'TDES reference disagrees'
            assert tdes_ecb_decrypt(key, tdes_ecb_encrypt(key, data)) == data
            key = rng.randbytes(rng.choice([16, 24, 32]))
            data = rng.randbytes(16)
            enc = Cipher(algorithms.AES(key), modes.ECB()).encryptor()
            assert enc.update(data) + enc.finalize() == aes_ecb_encrypt(key, data), 'AES reference disagrees'
            assert aes_ecb_decrypt(key, aes_ecb_encrypt(key, data)) == data
    return True
