"""
Shard-side recorder (Ctx), three-valued verdicts, result merge, evidence and VIOLATION / KNOWN-FINDING lines.

A property module (vmon/props/cNN.py) provides

    ID, TITLE, LEVEL ('exploration' | 'fault_enumeration'), RULE, ASSUMPTIONS, ANCHORS (function names)
    cases(ctx)            generator of JSON-able case dicts for ctx.shard of ctx.nshards (use ctx.mine(i))
    judge(ctx, case)      drive the real code for one case, evaluate the oracle, report through ctx
    canaries(ctx)         feed the oracle hand-corrupted observations; call ctx.canary(name, rejected)
    require(merged)       optional: list of reasons that make the merged run inconclusive
    SHARD_TIMEOUT         optional: {'quick': s, 'thorough': s}
"""
import collections
import hashlib
import json
import os
import signal
import threading
import time

from . import breadcrumb, env, sentinel

MAX_WITNESS_PER_MECH = 3
CPU_ALLOWANCE_S = 120      # CPU seconds one guarded call may use (ordinary calls: milliseconds)
MAX_SAMPLES = 6


def hx(b) -> str:
    return bytes(b).hex()


def unhx(s) -> bytes:
    return bytes.fromhex(s)


def digest(obj) -> int:
    if not isinstance(obj, (bytes, bytearray)):
        obj = json.dumps(obj, sort_keys=True, default=repr).encode()
    return int.from_bytes(hashlib.blake2b(obj, digest_size=8).digest(), 'big')


class Ctx:
    """What one shard records.  Verdicts are computed only from what is reported here."""

    def __init__(self, prop_id, tier, seed, shard=0, nshards=1):
        self.prop_id = prop_id
        self.tier = tier
        self.seed = seed
        self.shard = shard
        self.nshards = nshards
        self.evals = 0                      # oracle evaluations
        self.nontrivial_enum = 0            # distinct by construction (enumerated, partitioned over shards)
        self.digests = set()                # distinct by digest (sampled)
        self.trivial = 0
        self.counters = collections.Counter()
        self.classes = collections.defaultdict(set)
        self.violations = {}                # mechanism -> {'count', 'witnesses'}
        self.samples = []
        self.inconclusive = []
        self.canaries = {}
        self.exhaustive = {}
        self.replaying = False

    # -- partitioning ---------------------------------------------------------------------------------------
    def mine(self, i: int) -> bool:
        return i % self.nshards == self.shard

    def rng(self, *salt):
        import random
        key = '%s|%d|%d|%s' % (self.prop_id, self.seed, self.shard, '|'.join(map(str, salt)))
        return random.Random(int.from_bytes(hashlib.blake2b(key.encode(), digest_size=8).digest(), 'big'))

    def rng_global(self, *salt):
        """Same stream in every shard (for generators that every shard replays and then filters with mine())."""
        import random
        key = '%s|%d|%s' % (self.prop_id, self.seed, '|'.join(map(str, salt)))
        return random.Random(int.from_bytes(hashlib.blake2b(key.encode(), digest_size=8).digest(), 'big'))

    # -- recording ------------------------------------------------------------------------------------------
    def case_done(self, key=None, nontrivial=True, enumerated=False, n=1):
        """One (or n) oracle evaluation(s) finished.  key: anything JSON-able identifying the case."""
        self.evals += n
        if not nontrivial:
            self.trivial += n
        elif enumerated:
            self.nontrivial_enum += n
        else:
            self.digests.add(key if isinstance(key, int) else digest(key))

    def count(self, name, k=1):
        self.counters[name] += k

    def seen(self, name, value):
        s = self.classes[name]
        if len(s) < 5000:
            s.add(value)

    def sample(self, obj):
        if len(self.samples) < MAX_SAMPLES:
            self.samples.append(obj)

    def violation(self, mechanism: str, witness: dict):
        v = self.violations.setdefault(mechanism, {'count': 0, 'witnesses': []})
        v['count'] += 1
        if len(v['witnesses']) < MAX_WITNESS_PER_MECH:
            if getattr(self, 'debug_logging', False) and isinstance(witness, dict):
                witness = dict(witness, debug_logging=True)
            if getattr(self, 'shard_environment', None) and isinstance(witness, dict):
                witness = dict(witness, shard_environment=self.shard_environment)
            v['witnesses'].append(witness)

    def inconclusive_because(self, reason: str):
        if reason not in self.inconclusive:
            self.inconclusive.append(reason)

    def canary(self, name: str, rejected: bool):
        self.canaries[name] = bool(rejected)

    def exhaustive_subspace(self, name: str, size: int):
        self.exhaustive[name] = self.exhaustive.get(name, 0) + size

    # -- guarded call into cardutil -------------------------------------------------------------------------
    def call(self, fn, *args, budget=None, **kwargs):
        """
        Run fn under the step budget.  Returns (kind, value):
          ('ok', result) | ('exc', exception) | ('steps', site)
        """
        budget = budget if budget is not None else 2_000_000
        # CPU-time allowance for this one call, enforced by the kernel (see breadcrumb.py): far above what the line budget
        # allows at the slowest observed rate, so it only ever fires for time spent where no line is executed
        timed = threading.current_thread() is threading.main_thread()
        if timed:
            signal.setitimer(signal.ITIMER_VIRTUAL, max(CPU_ALLOWANCE_S, budget / 100_000))
        sentinel.arm(budget)
        try:
            result = fn(*args, **kwargs)
            return 'ok', result
        except sentinel.StepBudgetExceeded:
            return 'steps', sentinel.trip_site()
        except Exception as ex:  # noqa
            return 'exc', ex
        finally:
            n = sentinel.disarm()
            if timed:
                signal.setitimer(signal.ITIMER_VIRTUAL, 0)
            self.counters['cardutil_lines_executed'] += n

    def crumb(self, replayable_case):
        """Note the call about to be made (a case judge() can replay on its own) where it survives this process."""
        breadcrumb.call(replayable_case)

    # -- second, independent workloads for the same oracles ---------------------------------------------------
    def install_online_monitors(self, families):
        """Online shadow-model monitors (vmon/hooks.py) watch everything the workload makes cardutil do."""
        from . import hooks

        def report(family, mech, detail):
            self.violation('%s[%s]' % (mech, family), {'online_monitor': family, 'detail': detail})
        hooks.install(report, families)
        self._online = hooks.counters

    def repo_tests_under_monitors(self, families):
        """Run the repository's own test suite with the online monitors of `families` installed (pytest plugin)."""
        import subprocess
        import tempfile
        fd, path = tempfile.mkstemp(prefix='vmon-pytest-', suffix='.json')
        os.close(fd)
        e = dict(os.environ, PYTHONPATH=env.VERIF_DIR, VMON_REPORT=path, VMON_MONITORS=','.join(families), VERIF_REPO=env.REPO,
                 PYTHONDONTWRITEBYTECODE='1')
        try:
            p = subprocess.run([env.PYTHON, '-B', '-m', 'pytest', '-q', '-x', '-p', 'no:cacheprovider', '-p', 'vmon.pytest_plugin',
                                '--timeout=900'], cwd=env.REPO, env=e, capture_output=True, text=True, timeout=1200)
            with open(path) as f:
                rep = json.load(f)
        except Exception as ex:  # noqa
            self.count('repository test suite under monitors could not run: %s' % type(ex).__name__)
            return
        finally:
            try:
                os.unlink(path)
            except OSError:
                pass
        self.count('repository tests run under online monitors')
        if rep.get('pytest_exitstatus') not in (0,):
            self.count('repository tests failing under monitors (exit %s)' % rep.get('pytest_exitstatus'))
        for k, v in rep.get('counters', {}).items():
            if k.split(':')[0] in families:
                self.counters['repo tests: ' + k] += v
        for v in rep.get('violations', []):
            if v['family'] in families:
                self.violation('%s[repo tests]' % v['mechanism'], {'online_monitor': v['family'], 'test': v['test'], 'detail': v['detail']})

    # -- serialise ------------------------------------------------------------------------------------------
    def dump(self, wall):
        for k, v in (getattr(self, '_online', None) or {}).items():
            self.counters['online: ' + k] = v
        return {
            'shard': self.shard,
            'evals': self.evals,
            'nontrivial_enum': self.nontrivial_enum,
            'digests': sorted(self.digests),
            'trivial': self.trivial,
            'counters': dict(self.counters),
            'classes': {k: sorted(v, key=repr) for k, v in self.classes.items()},
            'violations': self.violations,
            'samples': self.samples,
            'inconclusive': self.inconclusive,
            'canaries': self.canaries,
            'exhaustive': self.exhaustive,
            'wall_s': wall,
            'max_steps': sentinel.max_steps_seen[0],
            'codes_monitored': len(sentinel._codes),
            'reach': sentinel.reach_report(),
        }


def enable_debug_logging(ctx):
    import logging
    lg = logging.getLogger('cardutil')
    lg.addHandler(logging.NullHandler())
    lg.propagate = False
    lg.setLevel(logging.DEBUG)
    logging.disable(logging.NOTSET)         # env.setup() silences logging for speed; here it is wanted
    logging.getLogger().setLevel(logging.CRITICAL)
    ctx.debug_logging = True                # recorded in every witness so that a replay switches it on too


def run_shard(mod, ctx, time_cap=None):
    """Canaries, then the workload.  Returns the dump."""
    t0 = time.time()
    cu = env.setup()  # noqa
    prep = getattr(mod, 'prepare', None)
    if prep:
        prep(ctx)
    if getattr(ctx, 'online_wanted', None):
        ctx.install_online_monitors(ctx.online_wanted)
    sentinel.install(per_thread=getattr(mod, 'PER_THREAD_STEPS', False))
    if ctx.nshards > 1 and ctx.shard == ctx.nshards - 1:
        # one shard in sixteen - a slice of every case class, since cases are dealt round-robin - runs with the library's
        # DEBUG logging switched on (what `--debug` does in the command-line tools): no statement depends on the log level
        enable_debug_logging(ctx)
        ctx.count('shards run with the library\'s DEBUG logging switched on')
    label = os.environ.get('VMON_SHARD_ENVIRONMENT')
    if label:
        if label.startswith('TZ='):
            time.tzset()
        ctx.shard_environment = label              # recorded in every witness found here
        ctx.count('shards run in another environment: ' + label)
    if ctx.shard == 0:
        mod.canaries(ctx)
    capped = False
    for case in mod.cases(ctx):
        breadcrumb.case(case)
        mod.judge(ctx, case)
        if time_cap and time.time() - t0 > time_cap:
            capped = True
            break
    if capped:
        ctx.count('shard_time_capped')
    fin = getattr(mod, 'finish', None)
    if fin:
        fin(ctx)
    return ctx.dump(round(time.time() - t0, 3))


# ---------------------------------------------------------------------------------------------------------------
# parent side
# ---------------------------------------------------------------------------------------------------------------

def merge(dumps):
    m = {
        'evals': 0, 'nontrivial_enum': 0, 'digests': set(), 'trivial': 0,
        'counters': collections.Counter(), 'classes': collections.defaultdict(set),
        'violations': {}, 'samples': [], 'inconclusive': [], 'canaries': {}, 'exhaustive': {},
        'shard_wall_s': [], 'max_steps': 0, 'codes_monitored': 0, 'reach': {},
    }
    for d in dumps:
        m['evals'] += d['evals']
        m['nontrivial_enum'] += d['nontrivial_enum']
        m['digests'].update(d['digests'])
        m['trivial'] += d['trivial']
        m['counters'].update(d['counters'])
        for k, v in d['classes'].items():
            m['classes'][k].update(tuple(x) if isinstance(x, list) else x for x in v)
        for mech, v in d['violations'].items():
            t = m['violations'].setdefault(mech, {'count': 0, 'witnesses': []})
            t['count'] += v['count']
            t['witnesses'].extend(v['witnesses'][:max(0, MAX_WITNESS_PER_MECH - len(t['witnesses']))])
        for s in d['samples']:
            if len(m['samples']) < MAX_SAMPLES:
                m['samples'].append(s)
        for r in d['inconclusive']:
            if r not in m['inconclusive']:
                m['inconclusive'].append(r)
        m['canaries'].update(d['canaries'])
        for k, v in d['exhaustive'].items():
            m['exhaustive'][k] = m['exhaustive'].get(k, 0) + v
        m['shard_wall_s'].append(d['wall_s'])
        m['max_steps'] = max(m['max_steps'], d['max_steps'])
        m['codes_monitored'] = max(m['codes_monitored'], d['codes_monitored'])
        for fn, (hit, total) in d['reach'].items():
            cur = m['reach'].get(fn, [0, total])
            m['reach'][fn] = [max(cur[0], hit), total]
    return m


def load_known():
    path = os.path.join(env.VERIF_DIR, 'known_findings.json')
    try:
        with open(path) as f:
            return json.load(f)
    except FileNotFoundError:
        return {'findings': [], 'fixed': []}


def known_match(known, prop_id, mechanism):
    for f in known.get('findings', []):
        if f.get('property') == prop_id and f.get('match', {}).get('mechanism') == mechanism:
            return f
    return None


def write_replay(prop_id, mechanism, witness, tier, seed):
    d = os.path.join(env.VERIF_DIR, 'replays')
    os.makedirs(d, exist_ok=True)
    body = {'property': prop_id, 'mechanism': mechanism, 'tier': tier, 'seed': seed,
            'repo': env.REPO, 'repo_head': env.repo_head(), 'witness': witness}
    name = '%s-%016x.json' % (prop_id, digest([mechanism, witness]))
    path = os.path.join(d, name)
    with open(path, 'w') as f:
        json.dump(body, f, indent=1, sort_keys=True, default=repr)
    return path


def conclude(mod, merged, tier, seed, wall, replaying=False, write_evidence=True):
    """Print the verdict lines, write the evidence file, return the exit code (0 held, 1 violated, 2 inconclusive)."""
    prop_id = mod.ID
    known = load_known()
    reasons = list(merged['inconclusive'])
    failed_canaries = [k for k, ok in merged['canaries'].items() if not ok]
    if failed_canaries:
        reasons.append('oracle canary not rejected: ' + ','.join(sorted(failed_canaries)))
    if not replaying:
        if not merged['canaries']:
            reasons.append('no oracle canary ran')
        req = getattr(mod, 'require', None)
        if req:
            reasons.extend(req(merged) or [])
        if merged['evals'] == 0:
            reasons.append('no oracle evaluation happened')

    new, listed = [], []
    for mech, v in sorted(merged['violations'].items()):
        f = known_match(known, prop_id, mech)
        (listed if f else new).append((mech, v, f))

    for mech, v, f in listed:
        print('KNOWN-FINDING: property=%s %s (%s; observed %d times)' % (prop_id, f.get('id', mech),
                                                                      f.get('description', mech), v['count']))
    replay_paths = []
    for mech, v, _ in new[:10]:
        path = write_replay(prop_id, mech, v['witnesses'][0] if v['witnesses'] else {}, tier, seed)
        replay_paths.append(path)
        print('VIOLATION property=%s replay=%s' % (prop_id, path))
        print('  mechanism: %s  (%d cases)' % (mech, v['count']))

    distinct = merged['nontrivial_enum'] + len(merged['digests'])
    if not replaying and not new and distinct < 2:
        reasons.append('fewer than two distinct non-trivial cases')

    if new:
        code = 1
    elif reasons:
        code = 2
    else:
        code = 0

    if write_evidence and not replaying:
        cov = {
            'evaluations': merged['evals'],
            'distinct_nontrivial': distinct,
            'rule': mod.RULE,
            'samples': merged['samples'] or ['(none recorded)'],
            'exhaustive': bool(merged['exhaustive']) and getattr(mod, 'ALL_EXHAUSTIVE', False),
            'observed': {
                'verdict': {0: 'held on what was observed', 1: 'violated', 2: 'inconclusive'}[code],
                'counters': dict(sorted(merged['counters'].items())),
                'classes': {k: _brief(v) for k, v in sorted(merged['classes'].items())},
                'exhaustive_subspaces': merged['exhaustive'],
                'trivial_or_dont_care_cases': merged['trivial'],
                'canaries': merged['canaries'],
                'inconclusive_reasons': reasons,
                'violation_mechanisms': {m: v['count'] for m, v in merged['violations'].items()},
                'known_findings_observed': [f.get('id') for _, _, f in listed],
                'max_cardutil_lines_in_one_call': merged['max_steps'],
                'code_objects_under_step_budget': merged['codes_monitored'],
                'anchor_line_reach': {fn: merged['reach'][fn] for fn in sorted(merged['reach'])
                                      if fn.split(':')[-1] in getattr(mod, 'ANCHORS', ())},
                'shard_wall_s': merged['shard_wall_s'],
                'repo': env.REPO, 'repo_head': env.repo_head(),
            },
        }
        ev = {
            'property_id': prop_id, 'tier': tier, 'seed': seed, 'level': mod.LEVEL,
            'coverage': cov, 'assumptions': list(mod.ASSUMPTIONS), 'wall_s': round(wall, 2),
            'violations': len(new),
        }
        d = os.path.join(env.VERIF_DIR, 'evidence')
        os.makedirs(d, exist_ok=True)
        tmp = os.path.join(d, '.%s.json.tmp' % prop_id)
        with open(tmp, 'w') as f:
            json.dump(ev, f, indent=1, sort_keys=False, default=repr)
        os.replace(tmp, os.path.join(d, '%s.json' % prop_id))

    if code == 2:
        print('INCONCLUSIVE property=%s reason=%s' % (prop_id, '; '.join(reasons)))
    elif code == 0:
        print('HELD property=%s tier=%s seed=%d evaluations=%d distinct_nontrivial=%d wall=%.1fs' % (
            prop_id, tier, seed, merged['evals'], distinct, wall))
    return code


def _brief(values):
    vals = sorted(values, key=repr)
    if len(vals) > 40:
        return {'count': len(vals), 'first': vals[:20], 'last': vals[-5:]}
    return vals


def threaded_agreement(plans, rounds=300, switch_interval=1e-6):
    """
    plans: one list per thread of (callable, args tuple, expected result).  All threads start together and go through their
    list `rounds` times; a pure function gives each caller its own answer whatever the other threads are doing.
    Returns (mismatches, alternations): mismatches as (thread, index, got repr); alternations counts how often consecutive
    completed calls belonged to different threads (zero means the threads never overlapped: inconclusive, not held).
    """
    import sys
    bad, order = [], []
    start = threading.Barrier(len(plans))

    def work(t):
        plan = plans[t]
        start.wait()
        for r in range(rounds):
            for i, (fn, args, want) in enumerate(plan):
                try:
                    got = fn(*args)
                except Exception as ex:      # noqa
                    got = ex
                order.append(t)
                if isinstance(got, Exception) or got != want:
                    bad.append((t, i, repr(got)[:120]))
                    return
    old = sys.getswitchinterval()
    sys.setswitchinterval(switch_interval)
    try:
        ths = [threading.Thread(target=work, args=(t,)) for t in range(len(plans))]
        for th in ths:
            th.start()
        for th in ths:
            th.join(600)
    finally:
        sys.setswitchinterval(old)
    return bad, sum(1 for a, b in zip(order, order[1:]) if a != b)
