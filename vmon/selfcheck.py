"""Self-validation of the trusted base (reference models).  Exit 0 if all pass, 2 otherwise."""
import importlib
import sys
import traceback

MODELS = ['vmon.ref.blocking', 'vmon.ref.codec', 'vmon.ref.crypto', 'vmon.ref.cards', 'vmon.ref.param']


def main():
    bad = 0
    for name in MODELS:
        try:
            mod = importlib.import_module(name)
        except ModuleNotFoundError as ex:
            if ex.name == name:
                print('selfcheck: %s not present (skipped)' % name)
                continue
            raise
        try:
            mod.selftest()
            print('selfcheck: %s ok' % name)
        except Exception:
            bad += 1
            print('selfcheck: %s FAILED' % name)
            traceback.print_exc()
    return 2 if bad else 0


if __name__ == '__main__':
    sys.exit(main())
