"""
Running something in a child process under a CPU-time allowance.

The line-step budget (sentinel.py) sees Python lines only: a call that is stuck inside C code - a regular expression that
backtracks exponentially, say - executes no further line and cannot be interrupted from Python either.  Such calls are made
in a child whose CPU time (RLIMIT_CPU, not wall-clock time: a loaded machine does not use up the allowance) is limited to a
large multiple of what the whole batch needs; the kernel ends the child when it is used up.

  run(args, ...) -> ('ok' | 'cpu' | 'wall', CompletedProcess-like)
     'cpu'  : the child used up its CPU allowance (verdict material)
     'wall' : the generous wall-clock watchdog fired first (inconclusive, never a verdict)
"""
import resource
import signal
import subprocess


class Result:
    def __init__(self, returncode, stdout, stderr):
        self.returncode, self.stdout, self.stderr = returncode, stdout, stderr


def _limit(cpu_seconds):
    def apply():
        resource.setrlimit(resource.RLIMIT_CPU, (cpu_seconds, cpu_seconds + 5))
    return apply


def run(args, env=None, cwd=None, cpu_seconds=30, wall_seconds=1800):
    p = subprocess.Popen(args, env=env, cwd=cwd, stdout=subprocess.PIPE, stderr=subprocess.PIPE, text=True,
                         preexec_fn=_limit(cpu_seconds))
    try:
        out, err = p.communicate(timeout=wall_seconds)
    except subprocess.TimeoutExpired:
        p.kill()
        out, err = p.communicate()
        return 'wall', Result(p.returncode, out, err)
    if p.returncode in (-signal.SIGXCPU, -signal.SIGKILL):
        return 'cpu', Result(p.returncode, out, err)
    return 'ok', Result(p.returncode, out, err)
