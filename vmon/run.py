"""
Parent process of a check:  python -B -m vmon.run <Cxx> [--tier quick|thorough] [--replay path] [--shards N]

Fans the property's workload out over worker processes (one subprocess per shard, each with its own wall-clock
watchdog whose firing is INCONCLUSIVE, never a violation), merges what the monitors observed, prints the verdict
lines and writes /verif/evidence/<id>.json.
"""
import argparse
import importlib
import json
import os
import shutil
import signal
import subprocess
import sys
import tempfile
import time

from . import breadcrumb, core, env


def load_prop(prop_id):
    return importlib.import_module('vmon.props.' + prop_id.lower())


def child_env(scratch=None):
    e = dict(os.environ)
    if scratch:  # every temporary file of a shard (and of the tools it starts) lives under the run directory
        os.makedirs(scratch, exist_ok=True)
        e['TMPDIR'] = scratch
    e['PYTHONHASHSEED'] = '0'
    e['PYTHONDONTWRITEBYTECODE'] = '1'
    e['PYTHONWARNINGS'] = 'ignore'
    e['PYTHONPATH'] = env.VERIF_DIR
    e.pop('CARDUTIL_CONFIG', None)
    e[env.GUARD] = '1'
    return e


def shard_environment(k, nshards):
    """
    Environment slices (DESIGN.md 2.3): cases are dealt to shards round-robin, so a shard is a slice of every case class.
    The last shard runs with DEBUG logging (core.run_shard); two more run in an interpreter started with -O and under a
    time zone with daylight saving.  (A -bb slice existed for a while and was withdrawn: DESIGN.md Appendix B.)
    Returns (interpreter options, extra environment, label).
    """
    if nshards >= 8:
        if k == nshards - 3:
            return ['-O'], {}, '-O'
        if k == nshards - 4:
            return [], {'TZ': 'EST5EDT,M3.2.0,M11.1.0'}, 'TZ=EST5EDT'
    return [], {}, ''


def main(argv=None):
    ap = argparse.ArgumentParser()
    ap.add_argument('prop')
    ap.add_argument('--tier', default=os.environ.get('VERIF_TIER') or 'quick', choices=['quick', 'thorough'])
    ap.add_argument('--replay')
    ap.add_argument('--shards', type=int, default=0)
    ap.add_argument('--no-evidence', action='store_true')
    args = ap.parse_args(argv)
    prop_id = args.prop.upper()
    mod = load_prop(prop_id)
    seed = env.seed()
    t0 = time.time()

    if args.replay:
        return replay(mod, args.replay, args.tier, seed)

    nshards = args.shards or getattr(mod, 'SHARDS', {}).get(args.tier, 16)
    nshards = max(1, min(nshards, (os.cpu_count() or 4)))
    timeout = getattr(mod, 'SHARD_TIMEOUT', {}).get(args.tier, 1200 if args.tier == 'quick' else 9000)
    tmp = tempfile.mkdtemp(prefix='vmon-%s-' % prop_id)
    procs = []
    try:
        for k in range(nshards):
            out = os.path.join(tmp, 'shard%d.json' % k)
            opts, extra, label = shard_environment(k, nshards)
            cmd = [env.PYTHON, '-B', '-X', 'faulthandler'] + opts + ['-m', 'vmon.worker', prop_id, args.tier, str(seed),
                                                                     str(k), str(nshards), out, str(timeout)]
            ce = child_env(os.path.join(tmp, 'scratch%d' % k))
            ce.update(extra)
            if '-bb' in opts:
                ce['PYTHONWARNINGS'] = 'ignore,error::BytesWarning'      # (child_env silences warnings; this one is the point)
            ce['VMON_SHARD_ENVIRONMENT'] = label
            p = subprocess.Popen(cmd, cwd=env.VERIF_DIR, env=ce, stdout=subprocess.PIPE, stderr=subprocess.STDOUT)
            procs.append((k, p, out))
        dumps, problems, cpu_kills = [], [], []
        deadline = t0 + timeout + 30
        for k, p, out in procs:
            try:
                text, _ = p.communicate(timeout=max(1, deadline - time.time()))
            except subprocess.TimeoutExpired:
                p.kill()
                text, _ = p.communicate()
                problems.append('shard %d hit the wall-clock watchdog (%ds)' % (k, timeout))
                continue
            if p.returncode == -signal.SIGVTALRM:
                # the kernel ended the shard: one guarded call used up its CPU allowance (breadcrumb.py)
                cpu_kills.append(breadcrumb.read(out + '.crumb'))
                continue
            if p.returncode != 0 or not os.path.exists(out):
                lines = (text or b'').decode('utf8', 'replace').strip().splitlines()
                if not problems:
                    sys.stderr.write('--- shard %d exited %s ---\n%s\n' % (k, p.returncode, '\n'.join(lines[-25:])))
                problems.append('shard crashed (%s): %s' % (p.returncode, lines[-1][:200] if lines else 'no output'))
                continue
            with open(out) as f:
                dumps.append(json.load(f))
    finally:
        for _, p, _ in procs:
            if p.poll() is None:
                p.kill()
        shutil.rmtree(tmp, ignore_errors=True)

    merged = core.merge(dumps)
    for crumb in cpu_kills:
        what = crumb.get('call') or crumb.get('case')
        if getattr(mod, 'CPU_VERDICT', False):
            v = merged['violations'].setdefault('cpu_allowance_used_up_inside_one_call', {'count': 0, 'witnesses': []})
            v['count'] += 1
            if len(v['witnesses']) < core.MAX_WITNESS_PER_MECH:
                v['witnesses'].append({'case': what, 'cpu_seconds_allowed': core.CPU_ALLOWANCE_S,
                                       'note': 'the shard was ended by SIGVTALRM while making this call'})
        else:
            problems.append('a guarded call used up its CPU allowance (this property does not speak about time): %s' % (json.dumps(what)[:300],))
    for pr in problems:
        if pr not in merged['inconclusive']:
            merged['inconclusive'].append(pr)
    code = core.conclude(mod, merged, args.tier, seed, time.time() - t0, write_evidence=not args.no_evidence)
    return code


def replay(mod, path, tier, seed):
    with open(path) as f:
        label = (json.load(f).get('witness') or {}).get('shard_environment')
    if label and os.environ.get('VMON_SHARD_ENVIRONMENT') != label:
        # the witness was found in an environment slice: replay it in an interpreter started the same way
        opts = [label] if label in ('-bb', '-O') else []
        e = dict(os.environ, VMON_SHARD_ENVIRONMENT=label, PYTHONPATH=env.VERIF_DIR, PYTHONHASHSEED='0')
        if label == '-bb':
            e['PYTHONWARNINGS'] = 'ignore,error::BytesWarning'
        if label.startswith('TZ='):
            e['TZ'] = 'EST5EDT,M3.2.0,M11.1.0'
        return subprocess.call([env.PYTHON, '-B'] + opts + ['-m', 'vmon.run', mod.ID, '--tier', tier, '--replay', path], env=e,
                               cwd=env.VERIF_DIR)
    if label and label.startswith('TZ='):
        time.tzset()
    pid = os.fork()
    if pid == 0:
        try:
            code = _replay(mod, path, tier, seed)
        except BaseException:      # noqa
            import traceback
            traceback.print_exc()
            code = 2
        sys.stdout.flush()
        sys.stderr.flush()
        os._exit(code)
    _, status = os.waitpid(pid, 0)
    if os.WIFSIGNALED(status) and os.WTERMSIG(status) == signal.SIGVTALRM:
        print('replay of %s on %s: the call used up its CPU allowance of %d s again' % (path, env.REPO, core.CPU_ALLOWANCE_S))
        print('VIOLATION property=%s replay=%s' % (mod.ID, path))
        print('  mechanism: cpu_allowance_used_up_inside_one_call  (1 cases)')
        return 1
    return os.WEXITSTATUS(status) if os.WIFEXITED(status) else 2


def _replay(mod, path, tier, seed):
    with open(path) as f:
        body = json.load(f)
    witness = body['witness']
    env.setup()
    from . import sentinel
    ctx = core.Ctx(mod.ID, body.get('tier', tier), body.get('seed', seed))
    ctx.replaying = True
    prep = getattr(mod, 'prepare', None)
    if prep:
        prep(ctx)
    sentinel.install(per_thread=getattr(mod, 'PER_THREAD_STEPS', False))
    if witness.get('debug_logging'):
        core.enable_debug_logging(ctx)
    case = witness.get('case')
    if case is None:
        print('replay file carries no case')
        return 2
    mod.judge(ctx, case)
    merged = core.merge([ctx.dump(0.0)])
    print('replay of %s on %s (%s): mechanism recorded = %s' % (path, env.REPO, env.repo_head(), body.get('mechanism')))
    code = core.conclude(mod, merged, ctx.tier, ctx.seed, 0.0, replaying=True, write_evidence=False)
    for mech, v in merged['violations'].items():
        print(json.dumps({'mechanism': mech, 'witness': v['witnesses'][0]}, indent=1, default=repr)[:4000])
    return code


if __name__ == '__main__':
    sys.exit(main())
