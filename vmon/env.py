"""
Locate the source under test and make the interpreter state deterministic.

Everything here is stdlib only.  `setup()` must run before anything imports cardutil.
"""
import logging
import os
import sys
import warnings

VERIF_DIR = os.path.dirname(os.path.dirname(os.path.abspath(__file__)))
REPO = os.path.abspath(os.environ.get('VERIF_REPO', '/repo'))
PYTHON = '/venv/bin/python'
GUARD = 'CARDUTIL_VERIF'

_done = False


def seed() -> int:
    try:
        return int(os.environ.get('VERIF_SEED', '0'))
    except ValueError:
        return 0


def setup():
    """Import cardutil from the working tree under test, quietly and reproducibly."""
    global _done
    if _done:
        return sys.modules['cardutil']
    sys.dont_write_bytecode = True
    os.environ.pop('CARDUTIL_CONFIG', None)
    os.environ[GUARD] = '1'
    # the working tree first; drop anything that could shadow it
    sys.path[:] = [p for p in sys.path if os.path.abspath(p or '.') != REPO]
    sys.path.insert(0, REPO)
    for name in [m for m in sys.modules if m == 'cardutil' or m.startswith('cardutil.')]:
        del sys.modules[name]
    warnings.filterwarnings('ignore')
    if sys.flags.bytes_warning >= 2:
        warnings.filterwarnings('error', category=BytesWarning)      # a shard started with -bb means it
    logging.disable(logging.CRITICAL)
    import cardutil
    where = os.path.abspath(cardutil.__file__)
    if not where.startswith(REPO + os.sep):
        raise RuntimeError(f'cardutil imported from {where}, expected under {REPO}')
    _done = True
    return cardutil


def cardutil_dir() -> str:
    return os.path.join(REPO, 'cardutil')


def repo_head() -> str:
    """Commit and dirtiness of the tree under test, for the evidence file."""
    import subprocess
    try:
        head = subprocess.run(['git', '-C', REPO, 'rev-parse', '--short', 'HEAD'],
                              capture_output=True, text=True, timeout=20).stdout.strip()
        dirty = subprocess.run(['git', '-C', REPO, 'status', '--porcelain', '--', 'cardutil'],
                               capture_output=True, text=True, timeout=20).stdout.strip()
        return head + ('+dirty' if dirty else '')
    except Exception:
        return 'unknown'
