"""
Interpreter-level sentinels built on sys.monitoring (Python 3.12).

* step budget  : LINE events on every cardutil code object (vendor/ excluded); a per-case counter of
                 executed source lines; passing the case's budget raises StepBudgetExceeded, which is a
                 BaseException so that none of cardutil's `except` clauses can swallow it.  This turns
                 "does not terminate" into a verdict that does not depend on wall-clock time.
* anchor reach : a second tool whose LINE callback records (function, line) once and then DISABLEs that
                 location, so it costs nothing after the first hit.  Evidence reports lines hit per
                 anchored function.
* raise sites  : derived from tracebacks at the boundary (origin()/chain()), not from RAISE events, which are
                 global-only on 3.12 and would tax the harness itself.
"""
import gc
import os
import sys
import threading
import types

from . import env

mon = sys.monitoring
STEP_TOOL = 3
REACH_TOOL = 4
BIG = 1 << 62


class StepBudgetExceeded(BaseException):
    """Raised inside cardutil code when a case executes more source lines than its budget."""


# [count, budget, trip_site]
_state = [0, BIG, None]
_tls = threading.local()
_per_thread = False
_reach = set()
_codes = []
_installed = False
max_steps_seen = [0]


def _on_line(code, line):
    s = _state
    s[0] += 1
    if s[0] > s[1]:
        s[1] = BIG
        s[2] = (os.path.basename(code.co_filename), code.co_name, line)
        raise StepBudgetExceeded('%s:%s:%d' % s[2])


def _on_line_threaded(code, line):
    t = _tls
    try:
        t.count += 1
    except AttributeError:
        t.count = 1
        t.budget = BIG
        t.site = None
    if t.count > t.budget:
        t.budget = BIG
        t.site = (os.path.basename(code.co_filename), code.co_name, line)
        raise StepBudgetExceeded('%s:%s:%d' % t.site)


def _on_reach(code, line):
    _reach.add((code.co_name, code.co_firstlineno, line))
    return mon.DISABLE


def _nested(code, out):
    out.append(code)
    for const in code.co_consts:
        if isinstance(const, types.CodeType):
            _nested(const, out)


def cardutil_codes():
    """Every code object of a function defined in cardutil/ (vendor excluded) that is alive now."""
    base = env.cardutil_dir() + os.sep
    vendor = os.path.join(env.cardutil_dir(), 'vendor') + os.sep
    seen = {}
    for obj in gc.get_objects():
        if isinstance(obj, types.FunctionType):
            code = obj.__code__
            fn = code.co_filename
            if fn.startswith(base) and not fn.startswith(vendor):
                found = []
                _nested(code, found)
                for c in found:
                    seen[id(c)] = c
    return list(seen.values())


def install(per_thread=False):
    """Arm both tools on all cardutil code objects.  Call after every cardutil module of interest is imported."""
    global _installed, _per_thread, _codes
    if _installed:
        return len(_codes)
    _per_thread = per_thread
    _codes = cardutil_codes()
    mon.use_tool_id(STEP_TOOL, 'vmon-steps')
    mon.use_tool_id(REACH_TOOL, 'vmon-reach')
    mon.register_callback(STEP_TOOL, mon.events.LINE, _on_line_threaded if per_thread else _on_line)
    mon.register_callback(REACH_TOOL, mon.events.LINE, _on_reach)
    for code in _codes:
        mon.set_local_events(STEP_TOOL, code, mon.events.LINE)
        mon.set_local_events(REACH_TOOL, code, mon.events.LINE)
    _installed = True
    return len(_codes)


def installed():
    return _installed


def budget_bulk(nbytes: int) -> int:
    """The same allowance for calls that move a lot of data: 100 lines per byte for the first 64 KiB, 20 beyond (still far
    above any byte-at-a-time implementation; keeps a genuinely stuck call on a multi-megabyte input detectable in seconds)."""
    return 20000 + 100 * min(nbytes, 65536) + 20 * max(0, nbytes - 65536)


def budget_for(nbytes: int) -> int:
    """Bounded progress: 20 000 + 100 lines per input byte (worst legitimate path measured at < 10 lines/byte)."""
    return 20000 + 100 * nbytes


def arm(budget: int):
    if _per_thread:
        _tls.count = 0
        _tls.budget = budget
        _tls.site = None
    else:
        _state[0] = 0
        _state[1] = budget
        _state[2] = None


def disarm() -> int:
    """Stop enforcing; return the number of cardutil lines executed since arm()."""
    if _per_thread:
        n = getattr(_tls, 'count', 0)
        _tls.budget = BIG
    else:
        n = _state[0]
        _state[1] = BIG
    if n > max_steps_seen[0]:
        max_steps_seen[0] = n
    return n


def trip_site():
    return getattr(_tls, 'site', None) if _per_thread else _state[2]


def steps() -> int:
    return getattr(_tls, 'count', 0) if _per_thread else _state[0]


def reach_report(function_names=None):
    """
    {function: [lines_hit, executable_lines]} for cardutil functions, optionally restricted to the anchored names.
    """
    report = {}
    hit = {}
    for name, first, line in _reach:
        hit.setdefault((name, first), set()).add(line)
    for code in _codes:
        if function_names is not None and code.co_name not in function_names:
            continue
        lines = {ln for (_, _, ln) in code.co_lines() if ln is not None and ln != code.co_firstlineno}
        if not lines:
            continue
        got = hit.get((code.co_name, code.co_firstlineno), set()) & lines
        key = '%s:%s' % (os.path.basename(code.co_filename)[:-3], code.co_qualname)
        report[key] = [len(got), len(lines)]
    return report


def origin(exc):
    """(function, exception type) of the innermost cardutil frame that the exception passed through, else None."""
    base = env.cardutil_dir() + os.sep
    tb = exc.__traceback__
    site = None
    while tb is not None:
        code = tb.tb_frame.f_code
        if code.co_filename.startswith(base):
            site = code.co_name
        tb = tb.tb_next
    return site


def chain(exc):
    """
    'ValueError@_iso8583_to_field>Iso8583DataError@_iso8583_to_field' : the low-level failure and what it was
    translated into, read from __context__/original_exception.
    """
    parts = []
    seen = set()
    e = exc
    while e is not None and id(e) not in seen and len(parts) < 6:
        seen.add(id(e))
        parts.append('%s@%s' % (type(e).__name__, origin(e) or '?'))
        nxt = getattr(e, 'ex', None)
        if not isinstance(nxt, BaseException):
            nxt = e.__cause__ or e.__context__
        e = nxt
    return '>'.join(reversed(parts))
