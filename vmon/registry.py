"""Per-property registration data from which MANIFEST.json is generated (python -m vmon.manifest)."""

# id -> dict(level, text, note, technique, design_ref)
CHECKS = {}

# properties not claimed (yet): id -> reason
NOT_CLAIMED = {}


def reg(pid, level, technique, text, note, design_ref=None):
    CHECKS[pid] = dict(level=level, technique=technique, text=text, note=note,
                       design_ref=design_ref or 'DESIGN.md section 4, ' + pid)


reg('C04', 'exploration',
    'runtime monitor: real Block1014/block_1014 driven over enumerated write histories, output compared with a reference blocker',
    'Every residue (quick: 100, thorough: all 1012) x three internal situations x every next write length 0..3036 is '
    'executed on the real blocker under a line-step budget and its finalised file compared byte-for-byte with an '
    'independent reference (position-coded content); plus seeded long histories and the one-shot function. Held on the '
    'executions produced; the residue x length sub-space is enumerated completely in the thorough tier.',
    'Trusts vmon/ref/blocking.py (validated against the mciipm docstring example) and io.BytesIO.')

reg('C05', 'fault_enumeration',
    'runtime monitor: real Unblock1014/unblock_1014 driven over enumerated read histories and trailer/truncation faults, compared with a payload-stream model',
    'Every residue of bytes already delivered (quick: 100, thorough: all 1012) x three chunkings x every next read size '
    '1..2024 on 1-, 2-, 3- and 5-block files (one with a short last chunk), read() with no size at every residue, seeded '
    'long sequences; unblock_1014 is fed every truncation length of 1..4-block files and every wrong value of every trailer '
    'byte. Each returned slice is compared with the reference payload stream. Held on the executions produced.',
    'Trusts vmon/ref/blocking.py and io.BytesIO. Read sizes 0/negative are outside the statement; read(None) judged only if it returns.')
