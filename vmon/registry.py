"""Per-property registration data from which MANIFEST.json is generated (python -m vmon.manifest)."""

# id -> dict(level, text, note, technique, design_ref)
CHECKS = {}

# properties not claimed (yet): id -> reason
NOT_CLAIMED = {}


def reg(pid, level, technique, text, note, design_ref=None):
    CHECKS[pid] = dict(level=level, technique=technique, text=text, note=note,
                       design_ref=design_ref or 'DESIGN.md section 4, ' + pid)


reg('C04', 'exploration',
    'runtime monitor: real Block1014/block_1014 driven over enumerated write histories, output compared with a reference blocker',
    'Every residue (quick: 100, thorough: all 1012) x three internal situations x every next write length 0..3036 is '
    'executed on the real blocker under a line-step budget and its finalised file compared byte-for-byte with an '
    'independent reference (position-coded content, and a second stream with stretches of the fill byte); plus single writes of 64 KiB .. 1 MiB including exact block fits, data that looks like an already blocked file, pairs of blockers written with interleaved writes, a sink that can neither seek nor tell (the fill must be out before any rewind is attempted), seeded long histories and the one-shot function. Held on the '
    'executions produced; the residue x length sub-space is enumerated completely in the thorough tier.',
    'Trusts vmon/ref/blocking.py (validated against the mciipm docstring example) and io.BytesIO.')

reg('C05', 'fault_enumeration',
    'runtime monitor: real Unblock1014/unblock_1014 driven over enumerated read histories and trailer/truncation faults, compared with a payload-stream model',
    'Every residue of bytes already delivered (quick: 100, thorough: all 1012) x three chunkings x every next read size '
    '1..2024 on 1-, 2-, 3- and 5-block files (one with a short last chunk), read() with no size at every residue, seeded '
    'long sequences (size 0 and reads up to 2 MiB included), files of 70, 200 and 2 300 blocks with unsized reads on them; unblock_1014 is fed every truncation length of 1..4-block files and every wrong value of every trailer '
    'byte, on position-coded payloads and on payloads holding whole blocks of the fill byte (the EBCDIC blank), and on payloads holding blocks of ASCII white space; a second unblocker on the rewound source and a disk file behind a sampled-and-rewound buffered reader.'
    '  Each returned slice is compared with the reference payload stream. Held on the executions produced.',
    'Trusts vmon/ref/blocking.py and io.BytesIO. Read sizes 0/negative are outside the statement; read(None) judged only if it returns.')

reg('C03', 'exploration',
    'runtime monitor: real VbsWriter/VbsReader and convenience functions driven over enumerated record lengths and boundary-aimed lists, file bytes compared with a reference framing',
    'Every record length 1..6000 (single-record files, blocked and unblocked, class and convenience APIs) is enumerated in '
    'both tiers; multi-record lists put a length prefix or record end on every offset within +-4 of a 1012-byte payload '
    'boundary; content classes include 0x00/0x40 runs. File bytes are compared with ref.vbs / the blocked payload model and the '
    'records read back (from the real and from the reference file, five writer idioms incl. close inside a with block; unblocked convenience reads leave the blocked argument out, also on fill-valued files that look blocked; the reader walked in nine styles incl. next-then-for, for/break/for and a second reader on the rewound file object; real files behind a buffered reader that was sampled with peek() and rewound) with the input; the live MAX_VBS_RECORD_LENGTH is also set to 3 000 / 6 500 / 10 000 at run time with records at the new maximum. Held on the executions produced.',
    'Trusts vmon/ref/blocking.py, io.BytesIO. Records are non-empty and at most 6000 bytes.')

reg('C09', 'fault_enumeration',
    'runtime monitor: real VbsReader/IpmReader run on every truncation prefix of generated files, yield compared with a reference reader over the surviving payload',
    'For each generated VBS, blocked, IPM-VBS and IPM-blocked file every truncation offset 0..len(file) is executed '
    '(exhaustive per file): the records yielded must be exactly those wholly inside the surviving payload stream and the '
    'terminating event must be end-of-iteration or MciIpmDataError. Files are sized so that prefixes and record ends fall on '
    'and around block boundaries, with records up to 6 000 bytes; one cut in five arrives through a non-seekable stream, some through disk files. Held on the executions produced.',
    'Trusts vmon/ref/blocking.py; for IPM files the expected dicts are the real decoder output on the complete records.')

reg('C11', 'exploration',
    'runtime monitor: every finalisation history (close / with-exit, nested real with-blocks) played on real writers; file snapshots after each finalisation compared, then read back',
    'All finalisation histories of length 1..4 (quick) / 1..5 (thorough; plus every length-6 history of the first two) over {close(), '
    'context-manager exit, exit through an Exception, exit through a BaseException}, each realised with nested with-blocks and with '
    'one with-block per exit entered in turn, x {VbsWriter, '
    'IpmWriter} x {VBS, 1014} x {BytesIO, real file} x 7 record sets are enumerated; histories of length 2-3 are also played with 150 / 400 other writers created and finalised after the first finalisation. The file after the whole history must '
    'equal the file after the first finalisation and read back, by the real and by the reference reader, as the records '
    'written. Exhaustive up to the history bound; held on the executions produced.',
    'Trusts vmon/ref/blocking.py. Whether a repeated finalisation is ignored or refused is not judged; only the file is.')

reg('C15', 'exploration',
    'runtime monitor: real Luhn functions driven over all short digit strings and all mutations of valid numbers, in-process and in -O / -OO child interpreters, against a reference Luhn',
    'All digit strings of length 0..5 (quick) / 0..7 (thorough) are enumerated in each of three interpreter modes (normal, '
    '-O, -OO; the mode is confirmed from sys.flags.optimize inside the child): computed digit equals the reference digit, '
    'validate(add(s)) accepts, and every single-digit substitution and adjacent transposition (other than 0/9) of every valid '
    'number up to payload length 4 / 5, and of 2 000 / 50 000 seeded numbers of 6..200 digits with separators, is rejected; the functions are also called from six threads at once against precomputed reference answers (inconclusive unless the calls alternated).',
    'Trusts vmon/ref/cards.py Luhn. accepts = returns (not False); rejects = raises or returns False.')

reg('C13', 'exploration',
    'runtime monitor: real pin-block classes (plain, predefined and type()-built mix-ins) driven over PIN/PAN length grids; clear blocks and ciphertexts compared with from-scratch ISO 9564 / DES / AES references; fill freshness observed',
    'PIN lengths 4..12 x PAN lengths 13..19 x seven class flavours are enumerated with seeded digits (20 / 150 repetitions, each '
    'digit value forced at each position), supplied fills {1, 2^63, 2^64-1, seeded} and none, TDES keys of 16/24 and AES keys '
    'of 16/24/32 bytes. Clear block, PIN recovered from clear bytes, ciphertext and PIN recovered from ciphertext are each '
    'compared with the reference; every format-0 case is followed, in the same process, by the same PIN on six neighbouring cards (one digit changed) a neighbouring PIN on the same card, and the used object pointed at another card and built again. Freshness: 2 000 / 20 000 format-4 fills never repeat and cover all 64 bit positions; blocks built in four forked children share no fill.',
    'Trusts vmon/ref/crypto.py (FIPS known answers; cross-checked against the cryptography package at setup) and vmon/ref/cards.py. '
    'A finite run cannot decide randomness, only non-repetition and width. Fill 0 is outside the quantifier.')

reg('C14', 'exploration',
    'runtime monitor: real PVV/KCV/key-combination functions compared with a from-scratch TDES reference; second-scan cases constructed backwards from chosen ciphertexts; metamorphic permutation/duplicate checks',
    'PIN 4..12 x PAN 13..19 x key lengths 8/16/24 x key index 0..9 through calculate_pvv and both mix-in routes; cases built '
    'backwards from a chosen ciphertext so that the second decimalisation scan supplies exactly 0,1,2,3 and 4 digits (a run '
    'missing any d is inconclusive); component lists of 2..5 parts of 8, 16 and 24 bytes with every permutation, a duplicated '
    'component, and the same components given once more after an earlier call in the same process; KCV lengths 1..16; six to_pvv calls on one pin block object with other card / index / key; encrypted zone keys under 16/24-byte master keys; PVV and key combination called from six threads at once against precomputed reference answers (inconclusive unless the calls alternated).',
    'Trusts vmon/ref/crypto.py and vmon/ref/cards.py; cryptography is used only to search for plaintexts, never to judge.')

reg('C01', 'exploration',
    'runtime monitor: real dumps/loads round trip observed over generated configurations, 72 single-byte codecs, both bitmap renderings and length sweeps; relation checked on every returned dict',
    'Single-element messages at every boundary length (thorough: every length 1..99 / 1..999) of every variable element, every '
    'element alone with numeric extremes and date-window edges, and seeded subsets (PDS keys, raw carriers, ICC, DE43, PAN '
    'processors, bits above 64, hex-like binary ICC content) under the packaged configuration, variants of it, a hand-written configuration with every rare attribute combination, generated configurations (half with shuffled key order) and configurations edited in place between two calls; quick uses 8 '
    'codecs, thorough every single-byte codec of the standard library. Every original key must come back equal (masked / '
    'prefix for PAN processors) with only documented derived extras. Held on the executions produced.',
    'Trusts the message domain definition in DESIGN.md section 4 and the python codecs.')

reg('C02', 'exploration',
    'runtime monitor: real dumps compared byte-for-byte with an independent reference encoder, real loads of reference-encoded bytes compared key-for-key with a strict reference decoder, refusal of over-long values observed',
    'Every single bit and every pair of bits of the packaged configuration x {latin_1, cp500} x {raw, hex} is enumerated; the '
    'C01 workload is reused and widened on the encode side (short fixed text, numbers as strings, decimals in exponent form, ISO date strings, empty/None '
    'values). Decode is judged on bytes produced by the reference encoder so a symmetric error cannot cancel. Over-long '
    'variable values (100..999 / 1000..5000 characters, text and bytes) must be refused while the longest representable '
    'value still encodes. Text with a character the chosen encoding cannot express must be refused as well (every text element x five codec/character pairs). Messages are also encoded right after one with the same keys and other sizes under the same configuration object. Every decoded dict without PDS data is fed back into dumps and must give the same wire image; dumps is also called from 6 threads at once (1 microsecond switch interval, inconclusive unless the calls alternated) and every result compared with the reference image. Held on the executions produced.',
    'Trusts vmon/ref/codec.py (validated at setup against the wire images pinned by the repository tests), python codecs, re, strptime.')

reg('C12', 'exploration',
    'runtime monitor: carrier values inside real dumps output (read by the reference decoder) compared with a reference greedy packer; PDS entries returned by real loads compared with the input set',
    'Boundary sweep enumerated completely in both tiers (first value length 940..992 x second 0..60 x third absent/0/1/30: the '
    'running carrier length crosses 985..1005 at every position), exact 999 fills, zero-length values, digit-only values that '
    'look like headers, sets needing exactly 1..5 carriers, seeded sets of up to 60 tags in shuffled insertion order, generated '
    'configurations with other carrier bits and shuffled key order (a quarter of the cases on a throwaway copy of the configuration, an eighth on a copy used once and then edited so that a carrier moves to another element), latin_1 and EBCDIC; every set is handed to dumps a second time as the same dict object (same bytes); one case in nine runs with the default configuration after the live packaged configuration object was adjusted (a carrier role removed). Held on the executions produced.',
    'Trusts vmon/ref/codec.py (pack_pds, lenient decoder). PDS sets exceeding the configured carriers are outside the statement.')

reg('C16', 'exploration',
    'runtime monitor: real mask() over every length and mask character; real loads / IpmReader under configurations that place the PAN or PAN-PREFIX processor on each variable element, every returned value searched for the clear card number',
    'mask(): every card-number length 10..40 x digit / arbitrary-character numbers x every printable ASCII mask character plus '
    'seeded Latin-1 ones. Decode: the processor is placed on each variable-length (and each wide fixed-width) text element of the packaged configuration in '
    'turn (and on generated configurations), latin_1 / cp500 / cp037, through loads, IpmReader and blocked IpmReader; the '
    'element must come back masked / as its nine-character prefix and the clear number (whole, without check digit, middle '
    'digits; as text, bytes or hex) must occur in no value of the returned dict; card numbers with separators, letters, line ends and other control characters (20 special characters x 8 positions x every length for mask()), and masking switched on in a configuration object that was already used for a decode, and the masked element declared as a number, masking switched on by replacing the element entry with a new dict, and entries that spell out the documented optional key field_processor_config (empty), are part of every run. Held on the executions produced.',
    'Trusts vmon/ref/codec.py encoder and vmon/ref/blocking.py to build the inputs. Other elements are letters-only so a hit is a leak.')

reg('C17', 'exploration',
    'runtime monitor: real ipm_info observed on files written by the real IpmWriter with every block count 1..12 and 50+, six codecs, both formats; invalid-input classes enumerated at their boundaries',
    'Message lists are sized so blocked files have exactly 1,2,...,12 blocks (each enumerated) and 50/53/64, first record small, '
    'large, spanning the first block boundary, longer than the 2 500-byte sample, and a shape with 0x40-character text everywhere '
    'except under offset 1012; MTI digits varied, x {latin_1, ascii, cp1252, cp500, cp037, cp1140} x {VBS, '
    '1014}. Invalid classes: every length 0..23, the 24-byte header, first length max / max+1 (also with the configured maximum changed at run time to 24, 3 000 and 9 000), every bit 2..128 in the '
    'first bitmap (alone and next to configured elements, bit 1 on and off), writer files inspected through BytesIO, small-buffer BufferedReaders and a disk file; ten live edits of bit_config (four of them replacing the dict object) (elements given / deprived of a configuration after an earlier inspection). Unblocked files with 0x40 0x40 at bytes 1012-1013 are not judged on the blocking answer.',
    'Files come from the real IpmWriter under the packaged configuration; vmon/ref/codec.py is used only to size them.')

reg('C07', 'fault_enumeration',
    'runtime monitor with a sys.monitoring line-step budget: real loads / VbsReader / IpmReader / extraction tools driven over structurally enumerated faults; outcome class and raise site observed for every input',
    'For 20 (quick) / 400 (thorough) well-formed bases covering every field kind, four codecs, both bitmaps, packaged and '
    'generated configuration: every structural byte (bitmap, length prefixes, PDS tags and sub-lengths, TLV tags and lengths) x '
    'all 256 values, every length field rewritten to negative / zero / at-over-far-over spellings, the content of every typed element replaced by 35 special words (NaN, Infinity, exponents, impossible dates), truncation at every offset, '
    'seeded multi-point mutation, random byte strings; the same at file level (record prefixes, block trailers, terminator, '
    'embedded message faults) through both readers and both extraction tools in-process, and the two extraction commands as real '
    'processes (no traceback on stderr), three tools incl. mideu convert, also on valid-but-awkward files (carriers that are full after sorting, non-numeric PDS tags), 23 ICC tails and BER long-form lengths (0x81..0x84 with values pointing back at the tag, at the length byte, nowhere, far ahead) on every DE55; paramconv among the tools; one file in seven read through a stream that cannot seek or tell; decoding repeated in child interpreters started with -O, -OO, -X utf8 and -I; messages ending inside their own header; every guarded call under a kernel-enforced CPU allowance (time spent in C code, e.g. a backtracking pattern, is a violation with the input as witness) and 300 merchant-location shapes per encoding decoded in a CPU-limited child; CPU time for 8 MB vs 1 MB of the same records must scale under 24x. Non-termination is decided as bounded '
    'progress (20 000 + 100 executed cardutil lines per input byte), not wall-clock.',
    'Bounded progress stands in for termination (worst legitimate path measured < 10 lines/byte). vmon/ref/codec.py lays out the bases. '
    'A hang inside C code emits no line events; it is ended by the kernel-enforced CPU allowance and reported with the breadcrumb of the call.')

reg('C08', 'fault_enumeration',
    'runtime monitor: accept/reject decision and returned dict of real loads bracketed by two independent reference decoders (strict subset, lenient superset) over enumerated neighbours of valid messages and constructed overlaps',
    'For 160 (quick) / 3 000 (thorough) valid bases (packaged, variant and generated configurations; latin_1, cp500, cp864, '
    'ascii; both bitmaps): every length-prefix digit replaced by sign/space/underscore/letter/every digit/non-ASCII digits, '
    'every prefix rewritten (negative spellings, 0, one short, one over, message length, maximum), hex bitmaps respelled (0x, signs, blanks, underscores, whole hex pairs blanked), utf-8 among the codecs, 25 fresh valid messages per base, each of the 128 bitmap bits '
    'flipped (and bit 1 cleared together with each bit above 64, with and without the upper elements\' bytes), every variable element emptied (must still be accepted), trims/extensions, multi-point mutation; plus thousands of '
    'constructed messages that a negative-length-tolerant decoder would tile exactly (negative prefixes spelled with and without white space around the sign); configuration lifecycle cases (an element entry edited in place or replaced by a new dict between two decodes of the same bitmap under one configuration object; a fresh configuration object per call, thrown away afterwards). strict accepts => must accept with that '
    'dict; lenient rejects => must reject; in between, accepted readings must equal the lenient element values.',
    'Trusts vmon/ref/codec.py strict/lenient decoders. A non-library exception counts as a rejection here (reported by C07).')

reg('C10', 'fault_enumeration',
    'runtime monitor: real IpmReader and the extraction tool run on files whose k-th record carries an injected fault; records delivered, exception attributes and the operator line observed for every k',
    'n = 1..10 (quick) / 1..40, 64, 100, 257 (thorough) records x every position k (for the files of 100 and 257 records: the ends, the middle and every eighth position) x eight ways of walking the reader x fourteen fault kinds (an unconfigured bit above every element present, a flagged element where the record ends exactly on a field boundary, an element deleted from a configuration object that has already read the file, a record ending inside its own header, a bad decimal value under a caller-supplied configuration, truncated record, oversized '
    'length, undecodable MTI (a quarter of the lists with records over 2 KB; truncation points: anywhere, straight after the length prefix, on a fill byte of a block, after two fill-valued data bytes; the context of a truncated record must be all its surviving bytes), unknown bitmap bit, bad field length, bad typed value, bad PDS content, bad ICC content, trailing '
    'bytes) x {VBS, 1014} x {latin_1, cp500, ascii (whose MTI fault is undecodable bytes)}: exactly k-1 records equal to the strict reference decode, MciIpmDataError with '
    'record_number == k and binary_context_data == prefix + raw bytes of record k, and "Error detected in record k" printed by '
    'mci_ipm_to_csv run in-process on the same file.',
    'Trusts vmon/ref/codec.py and vmon/ref/blocking.py to build files and expected dicts.')

reg('C06', 'exploration',
    'runtime monitor: real IpmWriter/IpmReader round trips compared with reference framing and the C01 relation; instance isolation observed by comparing each instance\'s step-by-step observables in seeded interleavings and under 8 threads with its solo run',
    'Lists of 1..300 (thorough 600) heterogeneous messages, records up to the 6 000-byte maximum, latin_1 / cp500 / cp037 (+ seeded '
    'codecs), VBS and 1014, packaged / variant / generated configurations, three writer APIs: file bytes equal the reference '
    'framing of the reference encodings, and the read-back list satisfies the C01 relation element-wise. Isolation: 2..4 reader '
    'and writer programs (some readers hit an injected fault) driven under seeded schedules at operation granularity, and 8 '
    'threads with a 1 microsecond switch interval; 32 (thorough 192) fresh child processes whose first cardutil calls are the first records of 8 threads; a reader reading through another reader and a reader parked in its source while others must progress; two round trips of more than 1 and 2 MiB; throwaway configuration copies; files in which a blank fixed element makes one whole 1014 block equal to the fill; records with the same keys and other sizes next to each other; the reader walked with list, next-then-for and for/break/for; a compact round-trip workload repeated in child interpreters that import only cardutil (-O, -OO, -X utf8, -I, two daylight-saving time zones, wall-clock times in the skipped and the repeated hour); each instance\'s trace (records, record_number, last_record, error context, '
    'file bytes) must equal its solo trace. The run is inconclusive unless thread alternations were actually observed.',
    'Trusts vmon/ref/codec.py and vmon/ref/blocking.py. Each thread owns its files and message objects. Per-thread step counters.')

reg('C18', 'exploration',
    'runtime monitor: real IpmParamReader and the CSV tool run on synthetic extract files built by placing generated column values at configured positions; returned dicts/CSV compared with the generated values',
    'Extract files with 1..6 tables (the four packaged layouts and generated contiguous / gapped / single-column layouts, including '
    'table ids that differ only in their last characters), random index assignments (also two sub-ids for one table), 0..40 '
    'rows per table interleaved, half of the generated layouts listing their columns out of positional order (some rows trimmed part-way through a column, some behind 3 000 rows of another table), unindexed / unconfigured noise rows and per-table trailers, x {compressed, expanded} x {latin_1, '
    'cp500} x {VBS, 1014}, every table of every file requested through the class, the CSV function or the CSV command (its own argument parser, real files, a configuration file); compressed and expanded must '
    'agree on every column; missing index trailer / unconfigured table / a table whose layout is empty or null must raise MciIpmDataError (class and command); packaged tables are also requested without handing over a layout (class without param_config, function with its default, command with a configuration file that has no parameter tables).',
    'Trusts vmon/ref/param.py (validated against the literal rows in the repository tests), vmon/ref/blocking.py and the csv module.')

reg('C19', 'exploration',
    'runtime monitor: the four conversion tools run (function, cli_run and argument-parser entry points - the latter with and without -o -, real files) on writer-produced inputs; converted records read by the real reader and by the reference decoder, then converted back and compared byte for byte',
    'All 6 ordered pairs of {latin_1, cp500, cp037} x {vbs,1014}^2 (plus layout-only conversions with the same encoding on both sides) for mci_ipm_encode and mci_ipm_param_encode, both fixed '
    'directions x {blocked, unblocked} for mideu convert and paramconv, 12 (quick) / 150 (thorough) repetitions with fresh '
    'message lists (PDS entries, raw carriers, binary DE55, typed elements, all element subsets) and arbitrary-byte parameter '
    'records (a third of the unblocked ones blank-padded with fill-valued bytes where a blocked file has its fill; a third of the unblocked EBCDIC message files likewise start with a blank-filled record), one input of more than 1 MiB per tool runs with the documented default arguments and with the derived output name (input must stay unchanged): record count, order and values preserved (DE55 byte-identical), output well blocked, and the return conversion '
    'reproduces the input file byte for byte.',
    'Trusts vmon/ref/codec.py, vmon/ref/blocking.py; the three codecs are checked to be Latin-1 bijections at run time. For the '
    'legacy converter PDS data are library-packed (it re-packs PDS with the default configuration).')

reg('C20', 'exploration',
    'runtime monitor: generated CSV tables pushed through the real mci_csv_to_ipm and mci_ipm_to_csv (function and cli_run entry points); every supplied cell compared with the output cell',
    '1 200 (quick) / 20 000 (thorough) tables of 1..50 (thorough ..400) rows over every supplied column of the configured output '
    'list (MTI, 28 data elements, 6 PDS columns): all columns, subsets, PDS only, PDS with other elements, cells with commas, '
    'quotes, leading/trailing/only spaces, 0 and maximum numbers, PDS cells whose packed length crosses the 999-character carrier '
    'boundary, words that tooling treats specially (NULL, None, nan, TRUE, 007, ...), space-heavy unblocked EBCDIC layouts, blocked tables tuned so that a record over 1 012 bytes ends exactly on a payload boundary, '
    'dates across the two-digit-year window (plus a class of '
    'non-canonical date spellings compared after normalisation) x {latin_1, cp500, cp037} x {blocked, unblocked}.',
    'Trusts the csv module. Derived/output-only columns, DE48 together with PDS columns, and cells with line breaks or control '
    'characters are outside the statement.')
