"""
Shared message workload for C01 (round trip) and C02 (wire format): configurations, codecs, case streams.
A case is JSON-able: {'cfg': <cfg id>, 'enc': str, 'hex': bool, 'msg': jsonable message, 'class': str}
cfg id: 'packaged' | ['variant', seed] | ['gen', seed]
"""
import random

from . import gen
from .ref import codec as ref

_cfg_cache = {}
_packaged = None


def set_packaged(cfg):
    global _packaged
    _packaged = cfg


def cfg_of(cid):
    if cid == 'packaged':
        return _packaged
    key = tuple(cid)
    c = _cfg_cache.get(key)
    if c is None and cid[0] == 'special':
        c = special_config()
    if c is None:
        rng = random.Random(cid[1] * 1000003 + 17)
        c = gen.packaged_variant(rng, _packaged) if cid[0] == 'variant' else gen.gen_config(rng)
        if cid[1] % 2:
            # the order in which a caller wrote the keys of the configuration dict must not matter
            keys = list(c)
            rng.shuffle(keys)
            c = {k: c[k] for k in keys}
        if len(_cfg_cache) > 200:
            _cfg_cache.clear()
        _cfg_cache[key] = c
    return c


def special_config():
    """
    A hand-written caller configuration that guarantees the rarer legal attribute combinations in every run, whatever
    the seed: typed variable-length elements (field_length 0 and non-zero), every processor, bits on both sides of 64.
    """
    t = gen.DE43_REGEX
    return {
        '1': {'field_name': 'Bitmap secondary', 'field_type': 'FIXED', 'field_length': 8},
        '127': {'field_name': 'fixed text, last bit', 'field_type': 'FIXED', 'field_length': 5},
        '66': {'field_name': 'long fixed text', 'field_type': 'FIXED', 'field_length': 1203},
        '67': {'field_name': 'fixed text after it', 'field_type': 'FIXED', 'field_length': 4},
        '2': {'field_name': 'text', 'field_type': 'LLVAR', 'field_length': 0},
        '5': {'field_name': 'decimal LLVAR', 'field_type': 'LLVAR', 'field_length': 0, 'field_python_type': 'decimal'},
        '6': {'field_name': 'decimal LLLVAR', 'field_type': 'LLLVAR', 'field_length': 0, 'field_python_type': 'decimal'},
        '7': {'field_name': 'int LLVAR', 'field_type': 'LLVAR', 'field_length': 0, 'field_python_type': 'int'},
        '8': {'field_name': 'long LLLVAR', 'field_type': 'LLLVAR', 'field_length': 0, 'field_python_type': 'long'},
        '10': {'field_name': 'decimal fixed', 'field_type': 'FIXED', 'field_length': 9, 'field_python_type': 'decimal'},
        '11': {'field_name': 'date', 'field_type': 'FIXED', 'field_length': 8, 'field_python_type': 'datetime', 'field_date_format': '%Y%m%d'},
        '12': {'field_name': 'date default format', 'field_type': 'FIXED', 'field_length': 6, 'field_python_type': 'datetime'},
        '64': {'field_name': 'int at 64', 'field_type': 'FIXED', 'field_length': 3, 'field_python_type': 'int'},
        '65': {'field_name': 'text at 65', 'field_type': 'FIXED', 'field_length': 2, 'field_python_type': 'string'},
        '100': {'field_name': 'pan', 'field_type': 'LLVAR', 'field_length': 0, 'field_processor': 'PAN'},
        '101': {'field_name': 'pan prefix', 'field_type': 'LLVAR', 'field_length': 0, 'field_processor': 'PAN-PREFIX', 'field_python_type': 'string'},
        '120': {'field_name': 'icc', 'field_type': 'LLLVAR', 'field_length': 255, 'field_processor': 'ICC'},
        '122': {'field_name': 'pds b', 'field_type': 'LLLVAR', 'field_length': 0, 'field_processor': 'PDS'},
        '121': {'field_name': 'pds a', 'field_type': 'LLLVAR', 'field_length': 0, 'field_processor': 'PDS'},
        '126': {'field_name': 'merchant', 'field_type': 'LLVAR', 'field_length': 0, 'field_processor': 'DE43', 'field_processor_config': t},
    }


def config_ids(ctx, n_gen, n_variant=2):
    base = ctx.seed * 7919
    return ['packaged', ['special', 0]] + [['variant', base + i] for i in range(n_variant)] + [['gen', base + 100 + i] for i in range(n_gen)]


def codecs_for(ctx, extra):
    allc = gen.single_byte_codecs()
    rng = ctx.rng_global('codecs')
    if extra is None:
        return allc
    others = [c for c in allc if c not in gen.CORE_CODECS]
    return list(gen.CORE_CODECS) + rng.sample(others, min(extra, len(others)))


def sweep_lengths(w, tier, rng):
    top = 10 ** w - 1
    if tier == 'thorough':
        return list(range(1, top + 1))
    if w == 2:
        base = {1, 2, 9, 10, 11, 98, 99}
    else:
        base = {1, 9, 10, 11, 99, 100, 101, 255, 256, 998, 999}
    return sorted(base | set(rng.sample(range(1, top + 1), 10)))


def case(cid, enc, hexbm, msg, cls):
    return {'cfg': cid, 'enc': enc, 'hex': hexbm, 'msg': gen.jsonable(msg), 'class': cls}


def sweep_cases(ctx, cids, encs):
    """Single-element messages at every (boundary) length of every variable element."""
    rng = ctx.rng_global('sweep')
    i = 0
    for ci, cid in enumerate(cids):
        cfg = cfg_of(cid)
        for b in gen.data_bits(cfg):
            c = cfg[str(b)]
            w = ref.PREFIX[c['field_type']]
            if not w:
                continue
            for n in sweep_lengths(w, ctx.tier, rng):
                enc = encs[(i + n) % len(encs)] if ctx.tier == 'quick' else encs[(b + n + ci) % len(encs)]
                hexbm = bool((n + b) % 2)
                i += 1
                if not ctx.mine(i):
                    continue
                r = ctx.rng('sweepval', ci, b, n)
                if c.get('field_processor') == 'PDS':
                    v = gen.gen_pds_text(r, enc, n) if n >= 7 else None
                    if v is None:
                        continue
                else:
                    if c.get('field_processor') == 'PAN' and n < 10:
                        continue        # masking is defined for card numbers of 10 or more characters
                    v = gen.gen_value(r, c, enc, length=n)
                    if v is None or len(str(v) if not isinstance(v, (str, bytes)) else v) == 0:
                        continue
                yield case(cid, enc, hexbm, {'MTI': gen.gen_mti(r), 'DE%d' % b: v}, 'length_sweep')


def single_cases(ctx, cids, encs):
    """Every element alone, with numeric extremes and date-window edges."""
    import datetime
    import decimal
    i = 0
    for ci, cid in enumerate(cids):
        cfg = cfg_of(cid)
        for b in gen.data_bits(cfg):
            c = cfg[str(b)]
            vals = []
            r = ctx.rng_global('single', ci, b)
            pt = c.get('field_python_type')
            w = ref.PREFIX[c['field_type']]
            L = c.get('field_length', 0) or 0
            if c.get('field_processor') == 'PDS':
                vals = [v for v in (gen.gen_pds_text(r, 'ascii', n) for n in (7, 8, 30, 300)) if v]
            elif pt in ('int', 'long'):
                vals = [0, 1, 9, 10 ** (L or 6) - 1, 10 ** ((L or 6) - 1)] if L or True else []
                if w:
                    vals = [0, 7, 10, 99, 123456, 10 ** 17]
            elif pt == 'decimal':
                if w:
                    vals = [decimal.Decimal('0.0'), decimal.Decimal('1.5'), decimal.Decimal('99999.99')]
                else:
                    vals = [gen.gen_value(r, c, 'ascii') for _ in range(4)]
            elif pt == 'datetime':
                fmt = c.get('field_date_format', '%y%m%d')
                if '%y' in fmt:
                    edges = [datetime.datetime(1969, 1, 1), datetime.datetime(2068, 12, 31, 23, 59, 59),
                             datetime.datetime(1999, 12, 31, 23, 59, 59), datetime.datetime(2000, 1, 1),
                             datetime.datetime(2000, 2, 29, 1, 2, 3), datetime.datetime(2068, 1, 1)]
                else:
                    edges = [datetime.datetime(1000, 1, 1), datetime.datetime(9999, 12, 31, 23, 59, 59),
                             datetime.datetime(2024, 2, 29, 23, 59, 59)]
                vals = []
                for d in edges:
                    vals.append(d.replace(hour=d.hour if '%H' in fmt else 0, minute=d.minute if '%M' in fmt else 0,
                                          second=d.second if '%S' in fmt else 0))
            else:
                vals = [gen.gen_value(r, c, 'ascii') for _ in range(2)]
            for v in vals:
                if v is None:
                    continue
                for enc in (encs[:4] if ctx.tier == 'quick' else encs):
                    for hexbm in (False, True):
                        i += 1
                        if ctx.mine(i):
                            if isinstance(v, str) and any(ch not in gen.repertoire(enc) for ch in v):
                                continue
                            yield case(cid, enc, hexbm, {'MTI': '1%03d' % (b % 1000), 'DE%d' % b: v}, 'single_element')


def pair_cases(ctx, encs=('latin_1', 'cp500')):
    """Every single configured bit and every pair of bits of the packaged configuration, exhaustively."""
    cfg = cfg_of('packaged')
    bits = gen.data_bits(cfg)
    i = 0
    n = 0
    combos = [(a,) for a in bits] + [(a, b) for k, a in enumerate(bits) for b in bits[k + 1:]]
    for combo in combos:
        for enc in encs:
            for hexbm in (False, True):
                i += 1
                n += 1
                if not ctx.mine(i):
                    continue
                r = ctx.rng('pair', *combo, enc, hexbm)
                msg = gen.gen_message(r, cfg, enc, subset=list(combo), pds_mode='raw')
                yield case('packaged', enc, hexbm, msg, 'bit_pairs_exhaustive')
    if ctx.shard == 0:
        ctx.exhaustive_subspace('packaged configuration: every single bit and every pair of bits x 2 codecs x 2 bitmaps', n)


def subset_cases(ctx, cids, encs, count):
    """Seeded subsets of all sizes, PDS + ICC together, PDS spilling into several carriers."""
    rng = ctx.rng('subsets')
    for j in range(count // ctx.nshards + 1):
        cid = rng.choice(cids)
        cfg = cfg_of(cid)
        enc = rng.choice(encs)
        msg = gen.gen_message(rng, cfg, enc)
        yield case(cid, enc, rng.random() < 0.5, msg, 'seeded_subset')


def twin_cases(ctx, cids, encs):
    """
    Two messages with exactly the same keys and very different value sizes, encoded one after the other under the same
    configuration object: what the first one needed (how many carriers, which elements) must not be remembered for the
    second.  Both orders; the second message is the one that is judged.
    """
    i = 0
    for cid in cids:
        cfg = cfg_of(cid)
        if len(ref.carriers_of(cfg)) < 2:
            continue
        plain = [b for b in gen.data_bits(cfg) if cfg[str(b)]['field_type'] == 'LLLVAR' and not cfg[str(b)].get('field_processor')
                 and gen.is_text(cfg[str(b)])][:2]
        for enc in encs[:3]:
            small = {'MTI': '1240', 'PDS0005': 'abc', 'PDS0010': 'de', 'PDS0148': 'f'}
            big = {'MTI': '1240', 'PDS0005': 'A' * 600, 'PDS0010': 'B' * 610, 'PDS0148': 'C' * 300}
            for b in plain:
                small['DE%d' % b] = 'xy'
                big['DE%d' % b] = 'Z' * 900
            for first, second in ((small, big), (big, small)):
                i += 1
                if ctx.mine(i):
                    c = case(cid, enc, bool(i % 2), second, 'same_keys_other_sizes')
                    c['first_msg'] = gen.jsonable(first)
                    yield c


EDITS = ('drop_first_carrier', 'add_lower_carrier', 'resize_fixed', 'llvar_to_lllvar')


def apply_edit(cfg, edit):
    """
    Edit a configuration dict IN PLACE the way a caller might between two calls.  Returns False if not applicable.
    A third item 'replace' in the edit means: the element's entry is not modified but REPLACED by a new dict
    (cfg['3'] = {...}) - the configuration object stays the same, the entry object does not.
    """
    kind, bit = edit[0], edit[1]
    c = cfg.get(str(bit))
    if c is None:
        return False
    if len(edit) > 2 and edit[2] == 'replace':
        c = cfg[str(bit)] = dict(c)
    if kind == 'drop_first_carrier':
        c.pop('field_processor', None)
    elif kind == 'add_lower_carrier':
        c['field_processor'] = 'PDS'
    elif kind == 'resize_fixed':
        c['field_length'] = c['field_length'] + 3
    elif kind == 'llvar_to_lllvar':
        c['field_type'] = 'LLLVAR'
    return True


def pick_edit(rng, cfg):
    car = ref.carriers_of(cfg)
    kind = rng.choice(EDITS)
    bits = gen.data_bits(cfg)
    if kind == 'drop_first_carrier' and car:
        return (kind, car[0])
    if kind == 'add_lower_carrier':
        cands = [b for b in bits if cfg[str(b)]['field_type'] == 'LLLVAR' and not cfg[str(b)].get('field_processor')
                 and gen.is_text(cfg[str(b)]) and (not car or b < car[0])]
        if cands:
            return (kind, rng.choice(cands))
    if kind == 'resize_fixed':
        cands = [b for b in bits if cfg[str(b)]['field_type'] == 'FIXED' and gen.is_text(cfg[str(b)]) and not cfg[str(b)].get('field_processor')]
        if cands:
            return (kind, rng.choice(cands))
    cands = [b for b in bits if cfg[str(b)]['field_type'] == 'LLVAR' and gen.is_text(cfg[str(b)]) and not cfg[str(b)].get('field_processor')]
    if cands:
        return ('llvar_to_lllvar', rng.choice(cands))
    return None


def edited_config_cases(ctx, cids, encs, count):
    """
    One configuration OBJECT used for a first message, then edited in place, then used again: the second call must follow
    the configuration as it is now (no state may be remembered from the first call).
    """
    import copy
    rng = ctx.rng('edited')
    for j in range(count // ctx.nshards + 1):
        cid = rng.choice(cids)
        base = cfg_of(cid)
        edit = pick_edit(rng, base)
        if not edit:
            continue
        enc = rng.choice(encs)
        msg1 = gen.gen_message(rng, base, enc, pds_mode=rng.choice(['keys', 'keys', 'none']))
        after = copy.deepcopy(base)
        apply_edit(after, edit)
        msg2 = gen.gen_message(rng, after, enc, pds_mode=rng.choice(['keys', 'keys', 'raw']))
        if str(edit[1]) and 'DE%d' % edit[1] not in msg2 and edit[0] in ('resize_fixed', 'llvar_to_lllvar'):
            v = gen.gen_value(rng, after[str(edit[1])], enc)
            if v:
                msg2['DE%d' % edit[1]] = v
        c = case(cid, enc, rng.random() < 0.5, msg2, 'config_edited_in_place')
        c['first_msg'] = gen.jsonable(msg1)
        c['edit'] = list(edit) + (['replace'] if j % 2 else [])
        yield c


def _first_use(ctx, c, cfg, dumps, loads):
    """The configuration object's first use: a message is encoded under it and, where a decoder is given, decoded again."""
    first = gen.unjsonable(c['first_msg'])
    kind, wire = ctx.call(dumps, dict(first), encoding=c['enc'], iso_config=cfg, hex_bitmap=c['hex'], budget=400000)
    if loads is not None and kind == 'ok':
        ctx.call(loads, wire, encoding=c['enc'], iso_config=cfg, hex_bitmap=c['hex'], budget=400000)
        ctx.count('first uses of a configuration object that also decoded')


def materialise_cfg(ctx, c, dumps, loads=None):
    """The configuration object a case is judged under: fresh deep copy; for edited cases, used once and edited in place."""
    import copy
    cfg = copy.deepcopy(cfg_of(c['cfg']))
    if c.get('class') == 'config_edited_in_place':
        _first_use(ctx, c, cfg, dumps, loads)
        apply_edit(cfg, tuple(c['edit']))
        ctx.count('configurations edited in place between two calls: ' + c['edit'][0])
        if 'replace' in c['edit'][2:]:
            ctx.count('configurations whose element entry was replaced by a new dict between two calls')
    if c.get('class') == 'same_keys_other_sizes':
        _first_use(ctx, c, cfg, dumps, loads)
        ctx.count('messages encoded right after one with the same keys and other sizes')
    return cfg


def describe(msg, cfg):
    """Coverage classes of one message for the evidence file."""
    out = []
    bits = [int(k[2:]) for k in msg if k.startswith('DE')]
    if any(b > 64 for b in bits):
        out.append('bit>64')
    if any(k.startswith('PDS') for k in msg):
        out.append('pds_keys')
    for b in bits:
        c = cfg[str(b)]
        p = c.get('field_processor')
        if p:
            out.append('proc:' + p)
        t = c.get('field_python_type')
        if t:
            out.append('type:' + t)
            if c['field_type'] != 'FIXED' and t != 'string':
                out.append('variable-length:' + t)
        out.append(c['field_type'])
    return out
