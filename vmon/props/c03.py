"""C03 - VBS framing: any record list survives write then read, with byte-exact layout."""
import io
import random

from .. import sentinel
from ..ref import blocking as ref
from .c04 import coded, KeepBytesIO

ID = 'C03'
LEVEL = 'exploration'
ANCHORS = ('VbsWriter.write', 'VbsWriter.close', 'VbsReader.__next__', 'VbsWriter.__init__', 'VbsReader.__init__',
           'vbs_list_to_bytes', 'vbs_bytes_to_list')
RULE = ('case = (record lengths, content class, blocked?, writer API, reader API). The file produced by the real writer '
        'must equal ref.vbs(records) (unblocked) or be whole 1014 blocks whose payload stream is ref.vbs(records) then '
        'only 0x40 (blocked); the real reader must return exactly the records. Single-record files enumerate record '
        'lengths (distinct by construction); multi-record lists are distinct by digest. Non-trivial: at least one record.')
ASSUMPTIONS = ['vmon/ref/blocking.py', 'io.BytesIO', 'records are non-empty and at most MAX_VBS_RECORD_LENGTH (6000) bytes']
CONTENTS = ('coded', 'zeros', 'fill', 'term_head', 'term_tail', 'pad_head', 'pad_tail', 'random')
WRITE_APIS = ('class_close', 'with', 'write_many', 'conv', 'with_close')
READ_APIS = ('class', 'conv', 'next_then_for', 'for_break_for', 'list_twice', 'second_reader_after_rewind', 'buffered_file_sniffed')
_CODED = coded(10200)


def prepare(ctx):
    from cardutil import mciipm
    ctx.mciipm = mciipm


def content(cls, n, salt=0):
    if cls == 'coded':
        off = salt % 97
        return _CODED[off:off + n]
    if cls == 'zeros':
        return b'\x00' * n
    if cls == 'fill':
        return b'\x40' * n
    if cls == 'term_head':
        return (b'\x00\x00\x00\x00' + _CODED[:n])[:n]
    if cls == 'term_tail':
        return (_CODED[:n] + b'\x00\x00\x00\x00')[-n:]
    if cls == 'pad_head':
        return (b'\x40\x40\x40' + _CODED[:n])[:n]
    if cls == 'pad_tail':
        return (_CODED[:n] + b'\x40\x40\x40')[-n:]
    return random.Random(salt * 7919 + n).randbytes(n)


def records_for(case):
    return [content(case['content'], n, i + case.get('salt', 0)) for i, n in enumerate(case['lens'])]


def cases(ctx):
    lengths = list(range(1, 6001))      # both tiers: every record length, exhaustively
    i = 0
    for j in range(0, len(lengths), 25):
        if ctx.mine(i):
            yield {'kind': 'single', 'lengths': lengths[j:j + 25]}
        i += 1
    if ctx.shard == 0:
        ctx.exhaustive_subspace('single-record files: record lengths x {blocked, unblocked} x 2 writer APIs', len(lengths) * 4)
        ctx.exhaustive_subspace('every record length 1..6000', 6000)
    # boundary-aimed lists: put the 2nd/3rd length prefix and record ends at 1012k+d, d in -4..4
    for k in (1, 2, 3):
        for d in range(-4, 5):
            for cls in (CONTENTS if ctx.tier == 'thorough' else ('coded', 'zeros', 'fill')):
                for blocked in (False, True):
                    if ctx.mine(i):
                        first = 1012 * k + d - 4
                        lens = [first, 7, 1012 - 11 - 4, 3]
                        if first >= 1:
                            yield {'kind': 'list', 'lens': lens, 'content': cls, 'blocked': blocked,
                                   'wapi': WRITE_APIS[(k + d) % len(WRITE_APIS)], 'rapi': READ_APIS[(k + d) % len(READ_APIS)]}
                    i += 1
    # unblocked files that look blocked: fill bytes exactly where a 1014-blocked file has its trailers
    for lens in ([2496], [2497], [3000], [5996], [600] * 5, [1008, 1010, 1010], [1008, 1010, 2000, 30]):
        for wapi in ('conv', 'class_close'):
            i += 1
            if ctx.mine(i):
                yield {'kind': 'list', 'lens': lens, 'content': 'fill', 'blocked': False, 'wapi': wapi, 'rapi': 'conv'}
    # the configured maximum is whatever the configuration says now: records up to a raised maximum must survive too
    for newmax in (10000, 6500, 3000):
        for blocked in (False, True):
            i += 1
            if ctx.mine(i):
                top = newmax
                yield {'kind': 'list', 'lens': [top, 1, top - 1, (top + 6000) // 2 if top > 6000 else top // 2], 'content': 'coded', 'blocked': blocked,
                       'wapi': 'class_close', 'rapi': 'class', 'configured_max': newmax}
    # seeded lists
    rng = ctx.rng('lists')
    for j in range((1500 if ctx.tier == 'quick' else 400000) // ctx.nshards + 1):
        n = rng.choice([1, 2, 3, 5, 8, 20, 60])
        lens = []
        for _ in range(n):
            r = rng.random()
            if r < 0.25:
                lens.append(rng.choice([1, 2, 3, 4, 1004, 1007, 1008, 1009, 1012, 1016, 2020, 2024, 6000, 5999]))
            elif r < 0.7:
                lens.append(rng.randint(1, 300))
            else:
                lens.append(rng.randint(1, 6000))
        yield {'kind': 'list', 'lens': lens, 'content': rng.choice(CONTENTS), 'blocked': rng.random() < 0.5,
               'wapi': rng.choice(WRITE_APIS), 'rapi': rng.choice(READ_APIS), 'salt': rng.randint(0, 10 ** 6)}


def write_file(ctx, recs, blocked, wapi):
    m = ctx.mciipm
    size = sum(len(r) for r in recs)

    def body():
        if wapi == 'conv':
            return m.vbs_list_to_bytes(recs, blocked=blocked)
        f = KeepBytesIO()
        if wapi == 'class_close':
            w = m.VbsWriter(f, blocked=blocked)
            for r in recs:
                w.write(r)
            w.close()
        elif wapi == 'with':
            with m.VbsWriter(f, blocked=blocked) as w:
                for r in recs:
                    w.write(r)
        elif wapi == 'with_close':
            # the belt-and-braces idiom: an explicit close inside the with block (the file is then finalised twice)
            with m.VbsWriter(f, blocked=blocked) as w:
                for r in recs:
                    w.write(r)
                w.close()
        else:
            w = m.VbsWriter(f, blocked=blocked)
            w.write_many(iter(recs))
            w.close()
        return f.getvalue()
    ctx.count('files written via ' + wapi)
    return ctx.call(body, budget=sentinel.budget_bulk(size + 4 * len(recs) + 2028))


def read_file(ctx, data, blocked, rapi):
    m = ctx.mciipm

    def body():
        if rapi == 'conv':
            if not blocked:
                # unblocked is the documented default: say nothing about blocking and it must not be guessed from the bytes
                ctx.count('convenience reads that leave the blocked argument out')
                return m.vbs_bytes_to_list(data)
            return m.vbs_bytes_to_list(data, blocked=blocked)
        r = m.VbsReader(io.BytesIO(data), blocked=blocked)
        if rapi == 'next_then_for':
            out = []
            try:
                out.append(next(r))
            except StopIteration:
                return out
            for rec in r:
                out.append(rec)
            return out
        if rapi == 'for_break_for':
            out = []
            broke = False
            for rec in r:
                out.append(rec)
                if len(out) == 2:
                    broke = True
                    break
            if broke:                   # resume a reader that was left mid-file (an exhausted one is not touched again)
                for rec in r:
                    out.append(rec)
            return out
        if rapi == 'buffered_file_sniffed':
            # a real file behind an ordinary buffered reader that was looked at (the way ipm_info samples a file) and rewound
            import os
            import tempfile
            fd, path = tempfile.mkstemp(prefix='vmon-c03-')
            try:
                with os.fdopen(fd, 'wb') as fh:
                    fh.write(data)
                with open(path, 'rb') as f:
                    f.read(4 if len(data) % 3 else 2500)
                    f.seek(0)
                    return list(m.VbsReader(f, blocked=blocked))
            finally:
                os.unlink(path)
        if rapi == 'second_reader_after_rewind':
            # count first, then read: a reader that took part (or all) of the file, the file rewound, a new reader on the
            # same file object - the second one starts from the beginning with nothing left over from the first
            f = io.BytesIO(data)
            r1 = m.VbsReader(f, blocked=blocked)
            if len(data) % 2:
                sum(1 for _ in r1)
            else:
                next(r1, None)
            f.seek(0)
            return list(m.VbsReader(f, blocked=blocked))
        if rapi == 'list_twice':
            first = list(r)
            if not blocked:
                # an exhausted reader stays exhausted (for blocked files what follows the terminator is fill, not judged here)
                first += list(r)
            return first
        return list(r)
    ctx.count('files read via ' + rapi)
    return ctx.call(body, budget=sentinel.budget_bulk(len(data) + 2028))


def fail(ctx, case, mech, detail):
    ctx.violation(mech, {'case': case, 'detail': detail})


def check(ctx, case, recs, blocked, wapi, rapi):
    stream = ref.vbs(recs)
    kind, data = write_file(ctx, recs, blocked, wapi)
    if kind != 'ok':
        fail(ctx, case, 'write:%s' % ('step_budget' if kind == 'steps' else 'exception:' + type(data).__name__),
             {'detail': repr(data)})
        return False
    ok = True
    if blocked:
        why = ref.classify_blocked(data, stream)
        if why:
            fail(ctx, case, 'layout:blocked:' + why, {'file_len': len(data), 'stream_len': len(stream)})
            ok = False
    elif data != stream:
        fail(ctx, case, 'layout:unblocked_bytes_differ', {'file_len': len(data), 'stream_len': len(stream),
                                                          'file_head': data[:12].hex(), 'want_head': stream[:12].hex()})
        ok = False
    # read back what the real writer produced ...
    kind, got = read_file(ctx, data, blocked, rapi)
    if kind != 'ok':
        fail(ctx, case, 'read:%s' % ('step_budget' if kind == 'steps' else 'exception:' + type(got).__name__),
             {'detail': repr(got)})
        return False
    if got != recs:
        fail(ctx, case, 'roundtrip:records_differ', {'want_lens': [len(r) for r in recs][:20],
                                                    'got_lens': [len(r) for r in got][:20]})
        ok = False
    # ... and what the reference writer produced (a symmetric writer/reader error cannot cancel here)
    refdata = ref.block(stream) if blocked else stream
    kind, got = read_file(ctx, refdata, blocked, rapi)
    if kind != 'ok' or got != recs:
        fail(ctx, case, 'read_reference_file:records_differ', {'detail': repr(got)[:200]})
        ok = False
    return ok


def judge(ctx, case):
    if case['kind'] == 'single':
        for n in case['lengths']:
            cls = CONTENTS[n % len(CONTENTS)]
            rec = content(cls, n, n)
            for blocked in (False, True):
                for wapi in (('class_close', 'conv') if n % 2 else ('with', 'conv')):
                    narrowed = {'kind': 'single', 'lengths': [n], 'only': [blocked, wapi]}
                    if 'only' in case and case['only'] != [blocked, wapi]:
                        continue
                    check(ctx, narrowed, [rec], blocked, wapi, READ_APIS[n % 2])
                    ctx.case_done(nontrivial=True, enumerated=True)
            if n in (1012 - 4, 6000):
                ctx.sample({'single_record_length': n, 'content': cls})
        return
    recs = records_for(case)
    if case.get('configured_max'):
        from cardutil.config import config as live
        old = live.get('MAX_VBS_RECORD_LENGTH')
        live['MAX_VBS_RECORD_LENGTH'] = case['configured_max']
        ctx.count('lists run with MAX_VBS_RECORD_LENGTH changed at run time')
        try:
            ok = check(ctx, case, recs, case['blocked'], case['wapi'], case['rapi'])
        finally:
            live['MAX_VBS_RECORD_LENGTH'] = old
    else:
        ok = check(ctx, case, recs, case['blocked'], case['wapi'], case['rapi'])
    ctx.case_done(['list', case['lens'], case['content'], case['blocked'], case['wapi'], case['rapi'], case.get('salt')],
                  nontrivial=bool(recs))
    stream_pos = 0
    for n in case['lens']:
        for edge in (stream_pos % 1012, (stream_pos + 4 + n) % 1012):
            if edge <= 4 or edge >= 1008:
                ctx.seen('prefix/record-end offsets near a 1012 payload boundary', edge if edge <= 4 else edge - 1012)
        stream_pos += 4 + n
    if ok and len(case['lens']) <= 8:
        ctx.sample({k: case[k] for k in ('lens', 'content', 'blocked', 'wapi', 'rapi')})


def canaries(ctx):
    ctx.repo_tests_under_monitors(('C03',))       # second, independent workload for the same oracle
    recs = [b'abc', b'\x00' * 4, b'z' * 1100]
    s = ref.vbs(recs)
    ctx.canary('little-endian prefix rejected', s != b'\x03\x00\x00\x00abc' + s[7:])
    ctx.canary('missing terminator differs', s[:-4] != s)
    ctx.canary('reference reader recovers records', ref.vbs_records_in(s) == (recs, 'end'))
    ctx.canary('blocked layout with wrong payload rejected', ref.classify_blocked(ref.block(s[:-4]), s) is not None)
    ctx.canary('blocked layout accepted', ref.classify_blocked(ref.block(s), s) is None)


def require(m):
    reasons = []
    c = m['counters']
    for api in WRITE_APIS:
        if not c.get('files written via ' + api):
            reasons.append('writer API %s never driven' % api)
    if not c.get('convenience reads that leave the blocked argument out'):
        reasons.append('convenience reader never called without the blocked argument')
    if not c.get('lists run with MAX_VBS_RECORD_LENGTH changed at run time'):
        reasons.append('configured maximum never changed at run time')
    for api in READ_APIS:
        if not c.get('files read via ' + api):
            reasons.append('reader API %s never driven' % api)
    edges = set(m['classes'].get('prefix/record-end offsets near a 1012 payload boundary', ()))
    if not set(range(-4, 5)) <= edges:
        reasons.append('not every offset within +-4 of a payload boundary was hit: %s' % sorted(edges))
    return reasons
