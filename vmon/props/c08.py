"""C08 - decoding accepts exactly the well-framed messages and never mis-frames one."""
from .. import gen, msgwork, mutate, sentinel
from ..core import hx, unhx, digest
from ..ref import codec as ref
from . import c07

ID = 'C08'
LEVEL = 'fault_enumeration'
ANCHORS = ('_iso8583_to_dict', '_iso8583_to_field', '_pds_to_dict')
RULE = ('case = one byte string near the valid language, judged by two independent references that bracket the real decoder: '
        'everything the STRICT reference accepts must be accepted with exactly its dict; everything the LENIENT reference '
        'rejects (negative length, element outside the message, bytes left over, unconfigured bit, unreadable number/text) '
        'must be rejected; whatever is accepted in between must have the lenient reference\'s element values (each value the '
        'content of its own bytes). Inputs: valid messages, every prefix digit replaced by sign/space/underscore/letter/any '
        'digit/non-ASCII digits, prefixes rewritten to negative, zero, short, over, message length and maximum, every bitmap '
        'bit flipped, zero-length variable fields, trims/extensions, multi-point mutation, and constructed overlaps that a '
        'negative-length-tolerant decoder would tile exactly. Enumerated inputs distinct by construction, sampled by digest. '
        'Non-trivial: header present and MTI numeric.')
ASSUMPTIONS = ['vmon/ref/codec.py strict and lenient decoders (self-tested at setup)',
               'numerals that are not plain digits, malformed PDS/ICC content inside a well-framed carrier, bit 1 clear, '
               'bit 128 set, upper-case hex bitmap, masked elements shorter than 10 characters are don\'t-care for acceptance',
               'a non-library exception counts as a rejection here (C07 reports it)']
SHARD_TIMEOUT = {'quick': 1800, 'thorough': 14400}
ENCODINGS = ('latin_1', 'cp500', 'cp864', 'ascii', 'utf_8')
FAMILIES = ('identity', 'valid_variants', 'hex_bitmap_spellings', 'prefix_digit_replacements', 'prefix_rewrites', 'logical_bitmap_flips', 'zero_length_fields',
            'edge_trims', 'multipoint')


def prepare(ctx):
    c07.prepare(ctx)


def finish(ctx):
    c07.finish(ctx)


def base(ctx, k):
    """C07's bases re-encoded under C08's codec list, plus generated messages under generated configurations."""
    enc = ENCODINGS[k % 5]
    hexbm = (k // 5) % 2 == 1
    rng = ctx.rng_global('c08base', k)
    if k % 11 == 10:
        cid = ['special', 0]
        cfg = msgwork.cfg_of(cid)
        msg = gen.gen_message(rng, cfg, enc, pds_mode=rng.choice(['raw', 'keys', 'none']))
    elif k % 3 == 2:
        cid = ['gen', ctx.seed * 7919 + 9000 + (k // 3) % 7]
        cfg = msgwork.cfg_of(cid)
        msg = gen.gen_message(rng, cfg, enc, pds_mode=rng.choice(['raw', 'keys', 'none']))
    elif k % 3 == 1:
        cid = ['variant', ctx.seed * 7919 + (k // 3) % 5]
        cfg = msgwork.cfg_of(cid)
        msg = gen.gen_message(rng, cfg, enc)
    else:
        cid = 'packaged'
        cfg = msgwork.cfg_of(cid)
        msg = gen.gen_message(rng, cfg, enc, subset=rng.sample(gen.data_bits(cfg), rng.randint(3, 14)), pds_mode='raw')
        msg['DE48'] = c07.pds_text(rng)
    return cid, enc, hexbm, ref.encode(msg, cfg, enc, hexbm)


def family_iter(ctx, fam, data, L, enc, hexbm, k):
    if fam == 'identity':
        return [('identity', data)]
    if fam == 'hex_bitmap_spellings':
        return mutate.hex_bitmap_spellings(data, hexbm)
    if fam == 'valid_variants':
        # fresh well-formed messages under the same configuration / codec / bitmap: all must be accepted
        cid = base(ctx, k)[0]
        cfg = msgwork.cfg_of(cid)
        r = ctx.rng_global('valid', k)
        out = []
        for j in range(25 if ctx.tier == 'quick' else 40):
            m = gen.gen_message(r, cfg, enc)
            try:
                out.append(('valid_variant:%d' % j, ref.encode(m, cfg, enc, hexbm)))
            except ref.RefError:
                pass
        return out
    if fam == 'prefix_digit_replacements':
        return mutate.prefix_digit_replacements(data, L, enc)
    if fam == 'prefix_rewrites':
        return mutate.prefix_rewrites(data, L, enc)
    if fam == 'logical_bitmap_flips':
        return mutate.logical_bitmap_flips(data, L, hexbm)
    if fam == 'zero_length_fields':
        return mutate.zero_length_fields(data, L, enc)
    if fam == 'edge_trims':
        return mutate.edge_trims(data)
    return mutate.multipoint(data, ctx.rng_global('multi', k), 150 if ctx.tier == 'quick' else 400)


def cases(ctx):
    nbases = 160 if ctx.tier == 'quick' else 3000
    i = 0
    for k in range(nbases):
        i += 1
        if ctx.mine(i):
            yield {'kind': 'base', 'base': k}
    cids = ['packaged'] + [['gen', ctx.seed * 7919 + 9000 + j] for j in range(3 if ctx.tier == 'quick' else 20)]
    # the configuration as a living object: used, then an element's entry edited or replaced, then used again for a message
    # with the same bitmap; and a fresh configuration object per call, thrown away after it
    for n in range(240 if ctx.tier == 'quick' else 6000):
        i += 1
        if ctx.mine(i):
            yield {'kind': 'lifecycle', 'n': n, 'mode': ('entry_replaced', 'entry_edited', 'fresh_objects')[n % 3],
                   'cfg': cids[(n // 3) % len(cids)] if (n // 3) % 2 else ['special', 0]}
    for cid in cids:
        for enc in ('latin_1', 'cp500'):
            for hexbm in (False, True):
                i += 1
                if ctx.mine(i):
                    yield {'kind': 'overlaps', 'cfg': cid, 'enc': enc, 'hex': hexbm}


def reject_class(reason):
    for key, name in (('negative', 'negative_length'), ('runs past', 'element_outside_message'), ('cut short', 'element_outside_message'),
                      ('cover', 'bytes_left_over'), ('no configuration', 'unconfigured_bit'), ('undecodable', 'undecodable_text'),
                      ('not a number', 'unreadable_number'), ('unreadable', 'unreadable_typed_value'), ('shorter than', 'no_header'),
                      ('not hex', 'bad_hex_bitmap'), ('MTI', 'bad_mti')):
        if key in reason:
            return name
    return 'other'


def judge_one(ctx, data, cid, enc, hexbm, how, enumerated, cfg=None, witness=None):
    cfg = cfg if cfg is not None else msgwork.cfg_of(cid)
    case1 = witness or {'kind': 'one', 'data': hx(data), 'cfg': cid, 'enc': enc, 'hex': hexbm}
    kind, val = ctx.call(ctx.iso.loads, data, encoding=enc, iso_config=cfg, hex_bitmap=hexbm, budget=sentinel.budget_for(len(data)))
    ctx.count('loads calls')
    accepted = kind == 'ok'
    if kind == 'exc' and not isinstance(val, ctx.iso.Iso8583DataError):
        ctx.count('non-library exception counted as rejection (C07 reports it)')
    if kind == 'steps':
        ctx.count('step budget exceeded counted as rejection (C07 reports it)')
    try:
        strict = ref.decode_strict(data, cfg, enc, hexbm)
    except ref.Reject:
        strict = None
    try:
        len_out, tiling, derived_ok, flagged = ref.decode_lenient(data, cfg, enc, hexbm)
        len_reason = None
    except ref.Reject as ex:
        len_out, len_reason = None, ex.reason
    hdr = 36 if hexbm else 20
    nontrivial = len(data) >= hdr
    if nontrivial:
        try:
            int(data[:4].decode(enc))
        except (ValueError, UnicodeError):
            nontrivial = False
    if enumerated:
        ctx.case_done(nontrivial=nontrivial, enumerated=True)
    else:
        ctx.case_done(digest(data + enc.encode() + bytes([hexbm]) + repr(cid).encode()), nontrivial=nontrivial)
    if strict is not None:
        ctx.count('class: must-accept')
        if not accepted:
            ctx.violation('must_accept:rejected', {'case': case1, 'how': how, 'error': repr(val)[:200], 'strict_reading': repr(strict)[:300]})
        elif val != strict or list(map(type, map(val.get, strict))) != list(map(type, strict.values())):
            bad = [k for k in set(val) | set(strict) if val.get(k, '<absent>') != strict.get(k, '<absent>')]
            ctx.violation('must_accept:wrong_reading', {'case': case1, 'how': how, 'keys': sorted(bad)[:6],
                                                       'got': repr({k: val.get(k) for k in bad[:3]})[:300],
                                                       'want': repr({k: strict.get(k) for k in bad[:3]})[:300]})
        else:
            ctx.count('must-accept accepted with the strict reading')
        return
    if len_out is None:
        ctx.count('class: must-reject')
        ctx.seen('must-reject reasons exercised', reject_class(len_reason))
        if accepted:
            ctx.violation('must_reject:accepted:' + reject_class(len_reason),
                          {'case': case1, 'how': how, 'reference_reason': len_reason, 'returned': repr(val)[:300]})
        else:
            ctx.count('must-reject rejected')
        return
    ctx.count('class: dont-care')
    if not accepted:
        ctx.count('dont-care rejected')
        return
    ctx.count('dont-care accepted (framing still judged)')
    want = len_out if derived_ok else {k: v for k, v in len_out.items() if k == 'MTI' or (k.startswith('DE') and k[2:].isdigit())}
    got = val if derived_ok else {k: v for k, v in val.items() if k == 'MTI' or (k.startswith('DE') and k[2:].isdigit())}
    bad = [k for k in set(want) | set(got)
           if want.get(k) is not ref.UNSPECIFIED and got.get(k, '<absent>') != want.get(k, '<absent>')]
    if bad:
        ctx.violation('accepted_with_different_framing', {'case': case1, 'how': how, 'keys': sorted(bad)[:6],
                                                          'got': repr({k: got.get(k) for k in bad[:3]})[:300],
                                                          'want': repr({k: want.get(k) for k in bad[:3]})[:300]})


def judge(ctx, case):
    kind = case['kind']
    if kind == 'one':
        judge_one(ctx, unhx(case['data']), case['cfg'], case['enc'], case['hex'], 'replay', False)
        return
    if kind == 'base':
        k = case['base']
        cid, enc, hexbm, data = base(ctx, k)
        cfg = msgwork.cfg_of(cid)
        L = mutate.layout(data, cfg, enc, hexbm)
        for fam in FAMILIES:
            n = 0
            for how, mutant in family_iter(ctx, fam, data, L, enc, hexbm, k):
                judge_one(ctx, mutant, cid, enc, hexbm, how, fam != 'multipoint')
                n += 1
            ctx.count('inputs from family ' + fam, n)
        if enc == 'utf_8' and any(b > 0x7f for b in data[36 if hexbm else 20:]):
            ctx.count('bases with multi-byte characters in variable elements')
        ctx.seen('base shapes', '%s/%s/%s' % (cid if cid == 'packaged' else cid[0], enc, 'hex' if hexbm else 'raw'))
        if len(ctx.samples) < 3:
            ctx.sample({'base': k, 'cfg': cid, 'enc': enc, 'hex_bitmap': hexbm, 'wire_len': len(data),
                        'variable_elements': len(L.prefixes), 'wire_head': hx(data[:40])})
        return
    if kind == 'lifecycle':
        lifecycle(ctx, case)
        return
    if kind == 'overlaps':
        cfg = msgwork.cfg_of(case['cfg'])
        n = 0
        for how, data in mutate.constructed_overlaps(cfg, case['enc'], case['hex']):
            judge_one(ctx, data, case['cfg'], case['enc'], case['hex'], how, True)
            n += 1
            if n == 1 and len(ctx.samples) < 6:
                ctx.sample({'constructed_overlap': how, 'cfg': case['cfg'], 'enc': case['enc'], 'wire': hx(data)})
        ctx.count('inputs from family constructed_overlaps', n)
        return
    raise ValueError(kind)


FRAMING_EDITS = ('resize_fixed', 'llvar_to_lllvar')


def _framing_edit(rng, cfg):
    for attempt in range(20):
        e = msgwork.pick_edit(rng, cfg)
        if e and e[0] in FRAMING_EDITS:
            return e
    return None


def lifecycle(ctx, case):
    """
    Decoding must follow the configuration it is handed AS IT IS NOW.  One configuration object is used for a decode, an
    element's entry is then edited in place or replaced by a new dict, and a message with the same bitmap is decoded under the
    same object; or every call gets a fresh configuration object (differing in one element) that is thrown away afterwards, so
    that object identities are reused.  Every decode is judged by the two references under the configuration in force.
    """
    import copy
    rng = ctx.rng_global('c08life', case['n'])
    base_cfg = msgwork.cfg_of(case['cfg'])
    enc = rng.choice(('latin_1', 'cp500', 'ascii'))
    hexbm = rng.random() < 0.3
    edit = _framing_edit(rng, base_cfg)
    if not edit:
        ctx.count('lifecycle cases without an applicable edit')
        return
    bit = edit[1]
    others = [b for b in gen.data_bits(base_cfg) if b != bit and b not in ref.carriers_of(base_cfg)]
    subset = sorted(set(rng.sample(others, min(len(others), rng.randint(1, 6))) + [bit]))
    witness = dict(case)

    def message(cfg):
        for attempt in range(10):
            msg = gen.gen_message(rng, cfg, enc, subset=subset, pds_mode='none')
            if set(msg) == {'MTI'} | {'DE%d' % b for b in subset}:
                return msg
        return None
    if case['mode'] == 'fresh_objects':
        n = 0
        for r in range(40):
            cfg = copy.deepcopy(base_cfg)
            if r % 2:
                msgwork.apply_edit(cfg, list(edit) + (['replace'] if r % 4 == 1 else []))
            msg = message(cfg)
            if msg is None:
                continue
            judge_one(ctx, ref.encode(msg, cfg, enc, hexbm), case['cfg'], enc, hexbm, 'lifecycle:fresh_object:%d' % r, False,
                      cfg=cfg, witness=witness)
            del cfg
            n += 1
        ctx.count('decodes under a fresh configuration object thrown away afterwards', n)
        return
    cfg = copy.deepcopy(base_cfg)
    msg1 = message(cfg)
    if msg1 is None:
        ctx.count('lifecycle cases without a message carrying the edited element')
        return
    wire1 = ref.encode(msg1, cfg, enc, hexbm)
    judge_one(ctx, wire1, case['cfg'], enc, hexbm, 'lifecycle:first_use', False, cfg=cfg, witness=witness)
    msgwork.apply_edit(cfg, list(edit) + (['replace'] if case['mode'] == 'entry_replaced' else []))
    msg2 = message(cfg)
    if msg2 is None:
        return
    wire2 = ref.encode(msg2, cfg, enc, hexbm)
    judge_one(ctx, wire2, case['cfg'], enc, hexbm, 'lifecycle:after_%s:%s' % (case['mode'], edit[0]), False, cfg=cfg, witness=witness)
    # the message framed for the configuration as it WAS, read under the configuration as it is now (whatever class that is)
    judge_one(ctx, wire1, case['cfg'], enc, hexbm, 'lifecycle:old_framing_after_%s' % case['mode'], False, cfg=cfg, witness=witness)
    ctx.count('decodes after the element entry was ' + ('replaced by a new dict' if case['mode'] == 'entry_replaced' else 'edited in place'))


def canaries(ctx):
    ctx.repo_tests_under_monitors(('C08',))       # second, independent workload for the same oracle
    cfg = msgwork.cfg_of('packaged')
    bm = bytes.fromhex('e0000000000000000000000000000000')
    neg = b'1144' + bm + b'-2' + b'3456'
    try:
        ref.decode_lenient(neg, cfg, 'latin_1', False)
        ok = False
    except ref.Reject as ex:
        ok = reject_class(ex.reason) == 'negative_length'
    ctx.canary('lenient reference rejects the negative prefix', ok)
    good = b'1144' + bm + b'02AB' + b'123456'
    ctx.canary('strict reference accepts a plain message', ref.decode_strict(good, cfg, 'latin_1', False) == {'MTI': '1144', 'DE2': 'AB', 'DE3': '123456'})
    sp = b'1144' + bm + b' 2AB' + b'123456'
    try:
        ref.decode_strict(sp, cfg, 'latin_1', False)
        s_ok = False
    except ref.Reject:
        s_ok = True
    ctx.canary('space-padded prefix is a dont-care (strict rejects, lenient accepts)',
               s_ok and ref.decode_lenient(sp, cfg, 'latin_1', False)[0]['DE2'] == 'AB')
    over = list(mutate.constructed_overlaps(cfg, 'latin_1', False))
    ctx.canary('overlap constructor produces messages', len(over) > 100 and any(h.endswith(':-2') for h, _ in over))
    zero = b'1144' + bm + b'00' + b'123456'
    ctx.canary('zero-length variable field is well-framed', ref.decode_strict(zero, cfg, 'latin_1', False)['DE2'] == '')


def require(m):
    reasons = []
    c = m['counters']
    for cls in ('must-accept', 'must-reject', 'dont-care'):
        if not c.get('class: ' + cls):
            reasons.append('class never produced: ' + cls)
    if not c.get('bases with multi-byte characters in variable elements'):
        reasons.append('no base with multi-byte characters')
    if not c.get('inputs from family hex_bitmap_spellings'):
        reasons.append('hex bitmap spellings never produced')
    for what in ('decodes after the element entry was replaced by a new dict', 'decodes after the element entry was edited in place',
                 'decodes under a fresh configuration object thrown away afterwards'):
        if not c.get(what) and not m['violations']:
            reasons.append('never produced: ' + what)
    if not c.get('inputs from family constructed_overlaps'):
        reasons.append('constructed overlaps never produced')
    need = {'negative_length', 'element_outside_message', 'bytes_left_over', 'unconfigured_bit'}
    if not need <= set(m['classes'].get('must-reject reasons exercised', ())):
        reasons.append('must-reject reasons not all exercised')
    if not c.get('dont-care accepted (framing still judged)') and not m['violations']:
        reasons.append('no dont-care input was accepted, framing of such inputs never judged')
    return reasons
