"""C04 - 1014 blocking: output is well-formed and data-exact for every write sequence."""
import io

from .. import sentinel
from ..ref import blocking as ref

ID = 'C04'
LEVEL = 'exploration'
ANCHORS = ('Block1014.write', 'Block1014.finalise', 'Block1014.seek', 'Block1014.close', 'block_1014')
RULE = ('case = (residue r of bytes already written mod 1012, chunking that reached it, next write length n, '
        'finaliser); content is position-coded ((7i+3) mod 251) so a dropped/duplicated/moved byte changes the '
        'comparison; the finalised file must equal ref.block(D) or ref.block(D)+one all-fill block. Enumerated '
        'cases are distinct by construction; seeded histories are distinct by digest of their write lengths. '
        'Non-trivial: at least one byte written.')
ASSUMPTIONS = ['vmon/ref/blocking.py (80 lines, validated against the hexdump example in the mciipm docstring)',
               'io.BytesIO']
SHARDS = {'quick': 16, 'thorough': 16}
MAXLEN = 3036

QUICK_RESIDUES = [0, 1, 2, 3, 504, 505, 506, 507, 508, 1008, 1009, 1010, 1011]


class KeepBytesIO(io.BytesIO):
    """BytesIO whose content survives close()."""
    kept = None

    def close(self):
        self.kept = self.getvalue()
        super().close()


_PERIOD = bytes(((7 * i + 3) % 251) for i in range(251))


def coded(n, start=0):
    """Position-coded content: byte i of the stream is (7i+3) mod 251."""
    off = start % 251
    return (_PERIOD * ((n + off) // 251 + 2))[off:off + n]


_CODED = coded(1200 * 1012 + 64)
# the same stream with block-aligned and unaligned stretches of the fill byte, zeros and trailer look-alikes in it
_FILLY = bytearray(_CODED)
for _k, _off, _n, _b in ((2, 0, 1012, 0x40), (5, 0, 2024, 0x40), (9, 500, 1012, 0x40), (11, 0, 1012, 0x00), (13, 1010, 4, 0x40),
                         (70, 0, 1012, 0x40), (300, 0, 3036, 0x40)):
    _FILLY[_k * 1012 + _off:_k * 1012 + _off + _n] = bytes([_b]) * _n
_FILLY = bytes(_FILLY)
# ... and with the fill byte exactly where a file that is ALREADY blocked carries its trailers (offsets 1014k+1012, +1013):
# data that merely looks blocked is data, and gets blocked like any other
_LOOKS = bytearray(_CODED)
for _k in range(0, 400):
    _LOOKS[_k * 1014 + 1012:_k * 1014 + 1014] = b'\x40\x40'
_LOOKS = bytes(_LOOKS)
_SRC = {'coded': _CODED, 'filly': _FILLY, 'looks_blocked': _LOOKS}


def prepare(ctx):
    from cardutil import mciipm
    ctx.mciipm = mciipm


def chunking_for(ctx, r, c):
    """Write lengths that bring the number of bytes written to residue r (mod 1012) in internal situation c."""
    if r == 0:
        return [[], [1012], [2024]][c]
    if c == 0:
        return [r]
    rng = ctx.rng_global('split', r, c)
    if c == 1:
        s = rng.randint(0, r)
        return [s, r - s]
    a = rng.randint(0, r)
    k = rng.choice([1, 2])
    return [1012 * k + a, r - a]


def cases(ctx):
    if ctx.tier == 'thorough':
        residues = list(range(1012))
    else:
        rng = ctx.rng_global('residues')
        residues = sorted(set(QUICK_RESIDUES) | set(rng.sample(range(1012), 87)))
    i = 0
    for r in residues:
        for c in range(3):
            if ctx.mine(i):
                yield {'kind': 'sweep', 'r': r, 'c': c, 'pre': chunking_for(ctx, r, c), 'lens': [0, MAXLEN]}
            i += 1
    if ctx.shard == 0:
        ctx.exhaustive_subspace('residues x 3 chunkings x next write length 0..3036', len(residues) * 3 * (MAXLEN + 1))
        if ctx.tier == 'thorough':
            ctx.exhaustive_subspace('all 1012 residues', 1012)
    # single large writes: above 64 KiB, exact block fits for large k, binary sizes, with 0..2 small writes before
    big = [1012 * k for k in (64, 65, 66, 67, 100, 128, 129, 1037)] + [65536, 65537, 66792, 70000, 131072, 262144, 1 << 20,
                                                                        1012 * 66 - 5, 1012 * 66 + 5, 1012 * 70 - 1012 + 1]
    for j, n in enumerate(big):
        for pre in ([], [5], [1012], [2024], [1007, 5], [100]):
            if ctx.mine(i):
                yield {'kind': 'history', 'writes': pre + [n], 'fin': ('finalise', 'seek', 'close')[j % 3], 'content': 'coded'}
            i += 1
            if ctx.mine(i):
                # a write that lands exactly on a block edge from the current state
                need = (1012 - sum(pre) % 1012) % 1012 + n // 1012 * 1012
                yield {'kind': 'history', 'writes': pre + [need], 'fin': 'finalise', 'content': 'filly'}
            i += 1
    # content with fill-byte stretches, for the streaming blocker and the one-shot function
    for total in [1012 * k + d for k in (3, 6, 7, 10, 12, 14, 16, 71, 303) for d in (0, 1, 500, 1011)]:
        if ctx.mine(i):
            yield {'kind': 'history', 'writes': [total], 'fin': 'finalise', 'content': 'filly'}
        i += 1
        if ctx.mine(i):
            yield {'kind': 'history', 'writes': [total // 3, total - total // 3], 'fin': 'close', 'content': 'filly'}
        i += 1
    # data that looks like an already blocked file, at the lengths a sampling check would look at
    for total in (1014, 2027, 2028, 2499, 2500, 2501, 3042, 4056, 5000, 101400, 250000):
        for writes in ([total], [total // 2, total - total // 2]):
            if ctx.mine(i):
                yield {'kind': 'history', 'writes': writes, 'fin': 'finalise', 'content': 'looks_blocked'}
            i += 1
    # two blockers alive at the same time, their writes interleaved: each file must be what it is when written alone
    for j, (wa, wb) in enumerate((([100, 1500, 7], [900, 200, 1012]), ([1012, 1012], [5, 5, 5, 3000]), ([0, 2024, 1], [1011, 1, 1]),
                                 ([300] * 9, [1700, 1700]), ([4000], [10, 10]))):
        if ctx.mine(i):
            yield {'kind': 'two_blockers', 'a': wa, 'b': wb, 'abandon_first': bool(j % 2)}
        i += 1
    # a sink that cannot seek (a pipe): the writers finalise through seek(0); the fill must be out before that fails
    for recs in ([100], [1004], [2000, 5], [1012] * 3):
        if ctx.mine(i):
            yield {'kind': 'nonseekable_sink', 'recs': recs}
        i += 1
    # seeded long histories
    n_hist = 400 if ctx.tier == 'quick' else 200000
    rng = ctx.rng('hist')
    for j in range(n_hist // ctx.nshards + 1):
        k = rng.randint(1, 12)
        lens = []
        for _ in range(k):
            top = rng.choice([4, 40, 400, 1012, 1013, 2024, 4100])
            lens.append(rng.choice([0, 1, 1011, 1012, 1013, 2024]) if rng.random() < 0.15 else rng.randint(0, top))
        yield {'kind': 'history', 'writes': lens, 'fin': rng.choice(['finalise', 'seek', 'close']),
               'content': rng.choice(['coded', 'coded', 'filly'])}


def peek(obj, name):
    """An internal attribute read for the evidence file only: absent or renamed means None, never a failure."""
    try:
        return getattr(obj, name, None)
    except Exception:      # noqa
        return None


def drive(ctx, writes, fin, src=None):
    """Run the real blocker.  Returns (outcome, file bytes | detail, remaining_chars trail)."""
    m = ctx.mciipm
    _CODED = src or globals()['_CODED']
    f = KeepBytesIO()
    trail = []

    def body():
        b = m.Block1014(f)
        pos = 0
        for n in writes:
            b.write(_CODED[pos:pos + n])
            pos += n
            trail.append(peek(b, 'remaining_chars'))
        if fin == 'finalise':
            b.finalise()
        elif fin == 'seek':
            b.seek(0)
        else:
            b.close()
        return pos
    kind, val = ctx.call(body, budget=sentinel.budget_bulk(sum(writes) + 1014 * len(writes) + 2028))
    if kind != 'ok':
        return kind, val, trail
    out = f.kept if f.closed else f.getvalue()
    return 'ok', out, trail


def oneshot(ctx, total, data=None):
    m = ctx.mciipm
    src, dst = io.BytesIO((data or _CODED)[:total]), io.BytesIO()
    kind, val = ctx.call(m.block_1014, src, dst, budget=sentinel.budget_bulk(total + 2028))
    if kind != 'ok':
        return kind, val
    return 'ok', dst.getvalue()


def branch_class(written, n):
    """Model-side classification of a write of n bytes after `written` bytes (independent of the blocker's internals)."""
    res = written % 1012
    if res == 0 and written > 0:
        where = 'at_block_boundary:'
        free = 0
    else:
        where = ''
        free = 1012 - res
    if n < free:
        return where + 'fits'
    if n == free:
        return where + 'completes_exactly'
    rem = n - free
    if rem < 1012:
        return where + 'completes_with_remainder'
    if rem == 1012:
        return where + 'remainder_eq_1012'
    return where + 'whole_blocks_loop'


def report(ctx, case, mech, detail):
    ctx.violation(mech, {'case': case, 'detail': detail})


def judge_one(ctx, writes, fin, case_for_replay, src=None):
    total = sum(writes)
    _CODED = src or globals()['_CODED']
    kind, out, trail = drive(ctx, writes, fin, src)
    ctx.count('Block1014.write calls', len(writes))
    ctx.count('finalised via ' + fin)
    for rc in trail:
        if rc in (0, 1012):
            ctx.seen('remaining_chars boundary values seen', rc)
    if kind == 'steps':
        report(ctx, case_for_replay, 'stream:step_budget@%s' % (out[1] if out else '?'), {'site': out})
        return False, trail
    if kind == 'exc':
        report(ctx, case_for_replay, 'stream:exception:%s' % type(out).__name__, {'error': repr(out)})
        return False, trail
    why = ref.classify_blocked(out, _CODED[:total])
    if why:
        report(ctx, case_for_replay, 'stream:' + why,
               {'written': total, 'file_len': len(out), 'expected_len': len(ref.block(_CODED[:total])),
                'first_diff': first_diff(out, ref.block(_CODED[:total]))})
        return False, trail
    return True, trail


def first_diff(a, b):
    for i, (x, y) in enumerate(zip(a, b)):
        if x != y:
            return i
    return min(len(a), len(b)) if len(a) != len(b) else None


def judge_two_blockers(ctx, case):
    m = ctx.mciipm
    fa, fb = KeepBytesIO(), KeepBytesIO()
    da, db = _CODED[:sum(case['a'])], _FILLY[5000:5000 + sum(case['b'])]

    def body():
        if case['abandon_first']:
            # a blocker that is written to and never finalised (its program failed) must leave nothing behind for the next
            junk = m.Block1014(KeepBytesIO())
            junk.write(_CODED[:700])
        a, b = m.Block1014(fa), m.Block1014(fb)
        pa = pb = 0
        for k in range(max(len(case['a']), len(case['b']))):
            if k < len(case['a']):
                a.write(da[pa:pa + case['a'][k]])
                pa += case['a'][k]
            if k < len(case['b']):
                b.write(db[pb:pb + case['b'][k]])
                pb += case['b'][k]
        a.finalise()
        b.finalise()
    kind, val = ctx.call(body, budget=sentinel.budget_bulk(len(da) + len(db) + 8000))
    ctx.count('pairs of blockers written with interleaved writes')
    ctx.case_done(['two', case['a'], case['b'], case['abandon_first']])
    if kind != 'ok':
        report(ctx, case, 'two_blockers:%s' % ('step_budget' if kind == 'steps' else 'exception:' + type(val).__name__), {'detail': repr(val)})
        return
    for name, f, d in (('first', fa, da), ('second', fb, db)):
        why = ref.classify_blocked(f.getvalue(), d)
        if why:
            report(ctx, case, 'two_blockers:%s_file:%s' % (name, why), {'file_len': len(f.getvalue()), 'data_len': len(d)})
            return


class PipeSink:
    """Collects what is written; cannot seek or tell (what a pipe or socket gives)."""
    def __init__(self):
        self.parts = []

    def write(self, b):
        self.parts.append(bytes(b))
        return len(b)

    def seekable(self):
        return False

    def seek(self, *a):
        raise io.UnsupportedOperation('seek')

    def tell(self):
        raise io.UnsupportedOperation('tell')

    def flush(self):
        pass


def judge_nonseekable(ctx, case):
    m = ctx.mciipm
    recs = [_CODED[100 * i:100 * i + n] for i, n in enumerate(case['recs'])]
    sink = PipeSink()

    def body():
        w = m.VbsWriter(sink, blocked=True)
        for r in recs:
            w.write(r)
        try:
            w.close()
        except (io.UnsupportedOperation, OSError):
            pass                    # the rewind cannot work on a pipe; what matters is what was written before it failed
    kind, val = ctx.call(body, budget=sentinel.budget_bulk(sum(case['recs']) + 8000))
    ctx.count('blocked files written to a sink that cannot seek')
    ctx.case_done(['pipe', case['recs']])
    if kind != 'ok':
        report(ctx, case, 'nonseekable_sink:%s' % ('step_budget' if kind == 'steps' else 'exception:' + type(val).__name__), {'detail': repr(val)})
        return
    why = ref.classify_blocked(b''.join(sink.parts), ref.vbs(recs))
    if why:
        report(ctx, case, 'nonseekable_sink:' + why, {'file_len': sum(len(x) for x in sink.parts)})


def judge(ctx, case):
    if case['kind'] == 'nonseekable_sink':
        return judge_nonseekable(ctx, case)
    if case['kind'] == 'two_blockers':
        return judge_two_blockers(ctx, case)
    if case['kind'] == 'history':
        writes, fin = case['writes'], case['fin']
        src = _SRC[case.get('content') or 'coded']
        ctx.seen('content classes', case.get('content', 'coded'))
        if max(writes or [0]) > 65536:
            ctx.count('histories with a single write above 64 KiB')
        ok, _ = judge_one(ctx, writes, fin, case, src)
        total = sum(writes)
        k2, o2 = oneshot(ctx, total, src)
        if k2 != 'ok':
            report(ctx, case, 'oneshot:%s' % (k2 if k2 == 'steps' else 'exception:' + type(o2).__name__), {'detail': repr(o2)})
        elif o2 != ref.block(src[:total]):
            why = ref.classify_blocked(o2, src[:total])
            if why:
                report(ctx, case, 'oneshot:' + why, {'total': total})
            else:       # the trailing all-fill block is optional for the one-shot function as well (the statement's last clause)
                ctx.count('one-shot outputs that end with the optional all-fill block')
        ctx.count('block_1014 calls')
        ctx.case_done(['h', writes, fin, case.get('content')], nontrivial=total > 0)
        if ok:
            ctx.sample({'writes': writes, 'finaliser': fin, 'file_len': len(ref.block(_CODED[:total]))})
        return
    pre = case['pre']
    written = sum(pre)
    lo, hi = case['lens']
    fins = ('finalise', 'seek', 'close')
    for n in range(lo, hi + 1):
        fin = case.get('fin') or fins[(n + case['r']) % 3]
        narrowed = dict(case, lens=[n, n], fin=fin)
        _, trail = judge_one(ctx, pre + [n], fin, narrowed)
        ctx.seen('write classes driven (model side)', branch_class(written, n))
        if case['c'] == 0:
            total = written + n
            k2, o2 = oneshot(ctx, total)
            ctx.count('block_1014 calls')
            if k2 != 'ok':
                report(ctx, narrowed, 'oneshot:%s' % (k2 if k2 == 'steps' else 'exception:' + type(o2).__name__),
                       {'detail': repr(o2)})
            elif o2 != ref.block(_CODED[:total]):
                why = ref.classify_blocked(o2, _CODED[:total])
                if why:
                    report(ctx, narrowed, 'oneshot:' + why, {'total': total})
                else:
                    ctx.count('one-shot outputs that end with the optional all-fill block')
    ctx.case_done(nontrivial=True, enumerated=True, n=hi - lo + 1 - (1 if written == 0 and lo == 0 else 0))
    if written == 0 and lo == 0:
        ctx.case_done(nontrivial=False, n=1)
    if case['r'] in (0, 505):
        ctx.sample({'residue': case['r'], 'chunking': pre, 'next_write_lengths': case['lens']})


def canaries(ctx):
    ctx.repo_tests_under_monitors(('C04',))       # second, independent workload for the same oracle
    d = _CODED[:1500]
    good = ref.block(d)
    ctx.canary('flipped payload byte', ref.classify_blocked(good[:100] + b'\xff' + good[101:], d) is not None)
    ctx.canary('dropped byte', ref.classify_blocked(ref.block(d[:700] + d[701:]), d) is not None)
    ctx.canary('missing trailer', ref.classify_blocked(good[:1012] + good[1014:], d) is not None)
    ctx.canary('two fill blocks', ref.classify_blocked(good + ref.FILL_BLOCK * 2, d) is not None)
    ctx.canary('short final block', ref.classify_blocked(good[:-1], d) is not None)
    ctx.canary('good output accepted', ref.classify_blocked(good, d) is None
               and ref.classify_blocked(good + ref.FILL_BLOCK, d) is None)


def require(m):
    reasons = []
    need = {'fits', 'completes_exactly', 'completes_with_remainder', 'remainder_eq_1012', 'whole_blocks_loop',
            'at_block_boundary:completes_exactly', 'at_block_boundary:completes_with_remainder',
            'at_block_boundary:remainder_eq_1012', 'at_block_boundary:whole_blocks_loop'}
    missing = need - set(m['classes'].get('write classes driven (model side)', ()))
    if missing:
        reasons.append('write classes never driven: %s' % sorted(missing))
    if not m['counters'].get('histories with a single write above 64 KiB'):
        reasons.append('no single write above 64 KiB')
    if 'filly' not in set(m['classes'].get('content classes', ())):
        reasons.append('content with fill-byte stretches never used')
    if 'looks_blocked' not in set(m['classes'].get('content classes', ())):
        reasons.append('no data that looks like an already blocked file')
    if not m['counters'].get('pairs of blockers written with interleaved writes') and not m['violations']:
        reasons.append('two blockers were never written with interleaved writes')
    if not m['counters'].get('block_1014 calls'):
        reasons.append('one-shot blocker never called')
    return reasons
