"""C01 - ISO8583 round trip: decoding an encoded message returns every value unchanged."""
from .. import gen, msgwork
from ..core import hx

ID = 'C01'
LEVEL = 'exploration'
ANCHORS = ('_dict_to_iso8583', '_field_to_iso8583', '_pytype_to_string', '_iso8583_to_dict', '_iso8583_to_field',
           '_string_to_pytype', 'BitArray.tolist', 'BitArray.fromlist', '_pds_to_de', '_pds_to_dict', '_icc_to_dict')
RULE = ('case = (configuration, codec, bitmap rendering, well-formed message). Classes: single-element messages at every '
        '(quick: boundary + seeded) length of every variable element; every element alone with numeric extremes and date '
        'window edges; seeded subsets of all sizes (PDS keys / raw carriers / ICC / DE43 / PAN processors). loads(dumps(m)) '
        'must contain every original key with an equal value (masked / 9-character prefix for PAN processors) and only '
        'documented derived extra keys. Distinct by digest of the whole case. Non-trivial: at least one data element.')
ASSUMPTIONS = ['the message domain of DESIGN.md section 4 (what "well-formed" means per element kind)',
               'vmon/ref/codec.py only for mask() and the carrier list', 'python codecs']


def prepare(ctx):
    from cardutil import iso8583
    from cardutil.config import config
    ctx.iso = iso8583
    msgwork.set_packaged(config['bit_config'])


def cases(ctx):
    quick = ctx.tier == 'quick'
    cids = msgwork.config_ids(ctx, 4 if quick else 40, 2 if quick else 6)
    encs = msgwork.codecs_for(ctx, 4 if quick else None)
    if ctx.shard == 0:
        for e in encs:
            ctx.seen('codecs used', e)
        ctx.count('configurations used', len(cids))
        if not quick:
            ctx.exhaustive_subspace('every length 1..99 / 1..999 of every variable element of every configuration', 1)
    yield from msgwork.sweep_cases(ctx, cids, encs)
    yield from msgwork.single_cases(ctx, cids, encs)
    yield from msgwork.subset_cases(ctx, cids, encs, 14000 if quick else 500000)
    yield from msgwork.edited_config_cases(ctx, cids, encs[:4], 1500 if quick else 30000)
    yield from msgwork.twin_cases(ctx, cids, encs)


def judge(ctx, case):
    iso = ctx.iso
    cfg = msgwork.materialise_cfg(ctx, case, iso.dumps, iso.loads)
    msg = gen.unjsonable(case['msg'])
    enc, hexbm = case['enc'], case['hex']
    want = gen.expected_roundtrip(msg, cfg)
    nontrivial = any(k.startswith(('DE', 'PDS')) for k in msg)
    ctx.case_done(case, nontrivial=nontrivial)
    ctx.count('class:' + case['class'])
    for d in msgwork.describe(msg, cfg):
        ctx.seen('message features', d)
    kind, data = ctx.call(iso.dumps, dict(msg), encoding=enc, iso_config=cfg, hex_bitmap=hexbm, budget=400000)
    ctx.count('dumps calls')
    if kind != 'ok':
        ctx.violation('dumps:%s' % ('step_budget' if kind == 'steps' else 'exception:' + type(data).__name__),
                      {'case': case, 'error': repr(data)})
        return
    kind, back = ctx.call(iso.loads, data, encoding=enc, iso_config=cfg, hex_bitmap=hexbm, budget=400000 + 100 * len(data))
    ctx.count('loads calls')
    if kind != 'ok':
        ctx.violation('loads_of_own_output:%s' % ('step_budget' if kind == 'steps' else 'exception:' + type(back).__name__),
                      {'case': case, 'wire': hx(data)[:400], 'error': repr(back)})
        return
    for k, v in want.items():
        if k not in back:
            ctx.violation('key_lost:%s' % field_class(k, cfg), {'case': case, 'key': k, 'wire': hx(data)[:400]})
            return
        if back[k] != v or type(back[k]) is not type(v) and not same_kind(back[k], v):
            ctx.violation('value_changed:%s' % field_class(k, cfg),
                          {'case': case, 'key': k, 'sent': repr(v)[:200], 'got': repr(back[k])[:200]})
            return
    for k in back:
        if k not in want and not gen.allowed_extra_key(k, cfg):
            ctx.violation('undocumented_extra_key', {'case': case, 'key': k})
            return
    for k in msg:
        if k.startswith('DE'):
            c = cfg[k[2:]]
            if c['field_type'] != 'FIXED':
                v = msg[k]
                n = len(v) if isinstance(v, (str, bytes)) else len(str(v))
                ctx.seen('variable lengths round-tripped (%s)' % c['field_type'], n)
    if len(ctx.samples) < 4 and case['class'] == 'seeded_subset' and 3 <= len(msg) <= 7:
        ctx.sample({'cfg': case['cfg'], 'enc': enc, 'hex_bitmap': hexbm, 'msg': gen.brief(msg), 'wire_bytes': len(data)})


def same_kind(a, b):
    import decimal
    num = (int, decimal.Decimal)
    return isinstance(a, num) and isinstance(b, num) and not isinstance(a, bool)


def field_class(k, cfg):
    if k.startswith('DE'):
        c = cfg.get(k[2:], {})
        return '%s:%s:%s' % (c.get('field_type'), c.get('field_python_type', 'string'), c.get('field_processor', '-'))
    return k[:3]


def canaries(ctx):
    cfg = msgwork.cfg_of('packaged')
    m = {'MTI': '1240', 'DE2': '5' * 16, 'DE4': 0}
    want = gen.expected_roundtrip(m, cfg)
    ctx.canary('relation notices a dropped key', 'DE4' in want and want != {'MTI': '1240', 'DE2': '5' * 16})
    ctx.canary('relation notices int vs str', want['DE4'] != '0')
    masked_cfg = {'2': dict(cfg['2'], field_processor='PAN')}
    ctx.canary('masked form expected under PAN processor',
               gen.expected_roundtrip({'DE2': '1234567890123456'}, masked_cfg)['DE2'] == '123456******3456')
    ctx.canary('extra key policing', not gen.allowed_extra_key('DE3', cfg) and gen.allowed_extra_key('DE48', cfg)
               and gen.allowed_extra_key('TAG9F26', cfg) and not gen.allowed_extra_key('FOO', cfg))


def require(m):
    reasons = []
    feats = set(m['classes'].get('message features', ()))
    for need in ('bit>64', 'pds_keys', 'proc:ICC', 'proc:DE43', 'proc:PAN', 'proc:PAN-PREFIX', 'proc:PDS', 'type:datetime',
                 'type:decimal', 'type:int', 'type:long', 'type:string', 'variable-length:decimal', 'variable-length:int', 'LLVAR',
                 'LLLVAR', 'FIXED'):
        if need not in feats:
            reasons.append('feature never exercised: ' + need)
    ll = set(m['classes'].get('variable lengths round-tripped (LLVAR)', ()))
    lll = set(m['classes'].get('variable lengths round-tripped (LLLVAR)', ()))
    if not {1, 99} <= ll:
        reasons.append('LLVAR lengths 1 and 99 not both round-tripped')
    if not {1, 99, 100, 999} <= lll:
        reasons.append('LLLVAR lengths 1, 99, 100, 999 not all round-tripped')
    return reasons
