"""C15 - Luhn check digits are correct and validation really rejects bad numbers, in every interpreter mode."""
import json
import os
import subprocess
import sys

from .. import core, env
from ..ref import cards as ref

ID = 'C15'
LEVEL = 'exploration'
ANCHORS = ('calculate_check_digit', 'validate_check_digit', 'add_check_digit')
RULE = ('case = (digit string, interpreter mode in {normal, -O, -OO}); all digit strings up to the bound are enumerated '
        '(distinct by construction), longer ones with separators are seeded (distinct by digest). For each: computed digit == '
        'reference Luhn digit, validate(add(s)) accepts, and (strings up to the substitution bound, and sampled valid numbers) '
        'every single-digit substitution and every adjacent transposition of different digits other than 0/9 is rejected. '
        'Non-trivial: the string has at least one digit.')
ASSUMPTIONS = ['vmon/ref/cards.py Luhn (validated on the ISO/IEC 7812 example)',
               'accepts = returns without raising and not False; rejects = raises or returns False',
               'children are /venv/bin/python -O / -OO running this same module (which uses no assert itself)']
MODES = {'normal': [], 'O': ['-O'], 'OO': ['-OO']}
SHARD_TIMEOUT = {'quick': 1200, 'thorough': 9000}


def prepare(ctx):
    from cardutil import card
    ctx.card = card


def cases(ctx):
    maxlen = 5 if ctx.tier == 'quick' else 7
    sublen = 4 if ctx.tier == 'quick' else 5
    i = 0
    total = 0
    for mode in MODES:
        for L in range(0, maxlen + 1):
            space = 10 ** L
            step = max(1, min(space, 50000))
            for lo in range(0, space, step):
                if ctx.mine(i):
                    yield {'kind': 'enum', 'mode': mode, 'len': L, 'range': [lo, min(space, lo + step)],
                           'mutations': L <= sublen}
                i += 1
            total += space
        n_s = 2000 if ctx.tier == 'quick' else 50000
        per = 500
        for j in range(n_s // per):
            if ctx.mine(i):
                yield {'kind': 'sampled', 'mode': mode, 'n': per, 'salt': j}
            i += 1
    if ctx.shard == 1:
        yield {'kind': 'threads', 'mode': 'normal', 'threads': 6, 'salt': ctx.seed}
    if ctx.shard == 0:
        ctx.exhaustive_subspace('all digit strings of length 0..%d x 3 interpreter modes' % maxlen, total)
        ctx.exhaustive_subspace('all substitutions and adjacent transpositions of all valid numbers with payload length 0..%d'
                                % sublen, sum(10 ** k for k in range(sublen + 1)) * 3)


def outcome(ctx, fn, arg):
    kind, val = ctx.call(fn, arg, budget=20000 + 100 * len(arg))
    if kind == 'steps':
        return 'steps', val
    if kind == 'exc':
        return 'rejects', type(val).__name__
    return ('rejects', 'False') if val is False else ('accepts', None)


def fail(ctx, mode, mech, s, detail):
    ctx.violation('%s[%s]' % (mech, 'optimised' if mode != 'normal' else 'normal'),
                  {'case': {'kind': 'single', 'mode': mode, 'payload': s}, 'detail': detail})


def check_string(ctx, mode, s, mutations):
    card = ctx.card
    want = ref.luhn_digit(s)
    kind, got = ctx.call(card.calculate_check_digit, s, budget=20000 + 100 * len(s))
    ctx.count('calculate_check_digit calls')
    if kind != 'ok':
        fail(ctx, mode, 'calculate:' + ('step_budget' if kind == 'steps' else 'exception:' + type(got).__name__), s, repr(got))
        return
    if got != want:
        fail(ctx, mode, 'calculate:wrong_digit', s, {'got': got, 'want': want})
        return
    kind, full = ctx.call(card.add_check_digit, s, budget=20000 + 100 * len(s))
    if kind != 'ok' or full != s + want:
        fail(ctx, mode, 'add:wrong_result', s, {'got': repr(full), 'want': s + want})
        return
    o, why = outcome(ctx, card.validate_check_digit, full)
    ctx.count('validate_check_digit calls')
    if o != 'accepts':
        fail(ctx, mode, 'validate:valid_number_' + ('step_budget' if o == 'steps' else 'rejected'), s, {'number': full, 'why': why})
    if not mutations:
        return
    digits = [k for k, ch in enumerate(full) if ch.isdigit()]
    # for very long numbers every position is still covered across the sample, but each number contributes about 40 of them
    stride = max(1, len(digits) // 40)
    first = len(s) % stride
    for k in (digits if stride == 1 else digits[first::stride] + digits[:2] + digits[-2:]):
        for d in '0123456789':
            if d == full[k]:
                continue
            bad = full[:k] + d + full[k + 1:]
            o, why = outcome(ctx, card.validate_check_digit, bad)
            ctx.count('validate_check_digit calls')
            ctx.count('single-digit substitutions judged')
            if o != 'rejects':
                fail(ctx, mode, 'validate:substitution_accepted', s, {'valid': full, 'invalid': bad, 'position': k})
                return
    for a, b in zip(digits, digits[1:]):
        x, y = full[a], full[b]
        if x == y or {x, y} == {'0', '9'}:
            continue
        bad = full[:a] + y + full[a + 1:b] + x + full[b + 1:]
        o, why = outcome(ctx, card.validate_check_digit, bad)
        ctx.count('validate_check_digit calls')
        ctx.count('adjacent transpositions judged')
        if o != 'rejects':
            fail(ctx, mode, 'validate:transposition_accepted', s, {'valid': full, 'invalid': bad, 'positions': [a, b]})
            return


def run_chunk(ctx, case):
    """The monitor proper; runs in whatever interpreter mode this process was started in."""
    mode = case['mode']
    ctx.count('interpreter reports optimize=%d for mode %s' % (sys.flags.optimize, mode))
    if case['kind'] == 'single':
        check_string(ctx, mode, case['payload'], True)
        ctx.case_done(['single', mode, case['payload']])
        return
    if case['kind'] == 'enum':
        L = case['len']
        lo, hi = case['range']
        for v in range(lo, hi):
            s = '%0*d' % (L, v) if L else ''
            check_string(ctx, mode, s, case['mutations'])
        ctx.case_done(nontrivial=L > 0, enumerated=True, n=hi - lo)
        if lo == 0 and L in (0, 5):
            ctx.sample({'mode': mode, 'all digit strings of length': L, 'range': case['range'], 'mutations': case['mutations']})
        ctx.seen('parities (payload length mod 2) seen', L % 2)
        return
    rng = ctx.rng_global('sampled', case['salt'])
    for _ in range(case['n']):
        n = rng.randint(6, 40) if rng.random() < 0.7 else rng.choice([41, 63, 64, 65, 66, 67, 99, 100, 101, 127, 128, 129, 199, 200, rng.randint(41, 200)])
        ctx.seen('long payload length parities (over 64 digits)', n % 2) if n > 64 else None
        digits = [rng.choice('0123456789') for _ in range(n)]
        if rng.random() < 0.4:
            for k in range(4, n, 4 + rng.randint(0, 1)):
                digits[k] = digits[k] + rng.choice(' -')
            if rng.random() < 0.2:
                digits[0] = rng.choice(' -') + digits[0]      # a leading separator
        s = ''.join(digits)
        check_string(ctx, mode, s, True)
        ctx.case_done(['s', mode, s])
        if len(ctx.samples) < 5:
            ctx.sample({'mode': mode, 'payload': s, 'check_digit': ref.luhn_digit(s)})


def absorb(ctx, dump):
    ctx.evals += dump['evals']
    ctx.nontrivial_enum += dump['nontrivial_enum']
    ctx.digests.update(dump['digests'])
    ctx.trivial += dump['trivial']
    ctx.counters.update(dump['counters'])
    for k, v in dump['classes'].items():
        ctx.classes[k].update(v)
    for mech, v in dump['violations'].items():
        t = ctx.violations.setdefault(mech, {'count': 0, 'witnesses': []})
        t['count'] += v['count']
        t['witnesses'].extend(v['witnesses'][:max(0, 3 - len(t['witnesses']))])
    for s in dump['samples']:
        ctx.sample(s)


def judge_threads(ctx, case):
    """The three functions called from several threads at once: every caller gets the answer for its own number."""
    import random
    from ..core import threaded_agreement
    from ..ref import cards as refcards
    rng = random.Random(1000 + case['salt'])
    card = ctx.card

    def verdict(s):
        try:
            card.validate_check_digit(s)
            return 'accepts'
        except AssertionError:
            return 'rejects'
    plans = []
    for t in range(case['threads']):
        plan = []
        for _ in range(10):
            p = ''.join(rng.choice('0123456789') for _ in range(rng.randint(1, 24)))
            d = int(refcards.luhn_digit(p))
            plan.append((lambda x: int(card.calculate_check_digit(x)), (p,), d))
            plan.append((card.add_check_digit, (p,), p + str(d)))
            plan.append((verdict, (p + str(d),), 'accepts'))
            plan.append((verdict, (p + str((d + 1 + rng.randrange(9)) % 10),), 'rejects'))
        plans.append(plan)
    bad, alternations = threaded_agreement(plans, rounds=80 if ctx.tier == 'quick' else 800)
    ctx.case_done(['threads', case['salt']])
    ctx.count('thread alternations between consecutive Luhn calls', alternations)
    if bad:
        ctx.violation('threads:a_caller_got_another_answer[normal]', {'case': case, 'thread': bad[0][0], 'call': bad[0][1], 'got': bad[0][2]})


def judge(ctx, case):
    if case['kind'] == 'threads':
        return judge_threads(ctx, case)
    mode = case['mode']
    if mode == 'normal':
        run_chunk(ctx, case)
        return
    e = dict(os.environ, PYTHONPATH=env.VERIF_DIR, PYTHONHASHSEED='0', PYTHONDONTWRITEBYTECODE='1', VERIF_SEED=str(ctx.seed))
    p = subprocess.run([env.PYTHON, '-B'] + MODES[mode] + ['-m', 'vmon.props.c15', ctx.tier],
                       input=json.dumps(case).encode(), capture_output=True, env=e, cwd=env.VERIF_DIR, timeout=1500)
    ctx.count('child interpreters started with %s' % MODES[mode][0])
    if p.returncode != 0:
        ctx.inconclusive_because('child interpreter (%s) failed: %s' % (mode, p.stderr.decode('utf8', 'replace')[-300:]))
        return
    absorb(ctx, json.loads(p.stdout.decode().strip().splitlines()[-1]))


def canaries(ctx):
    # the oracle must tell a left-weighted formula from Luhn (differs for odd payload lengths only)
    def left_weighted(s):
        t = 0
        for i, ch in enumerate(s):
            d = int(ch) * (2 if i % 2 == 1 else 1)
            t += d - 9 if d > 9 else d
        return str((10 - t % 10) % 10)
    ctx.canary('left-weighted formula differs on an odd length', left_weighted('123') != ref.luhn_digit('123'))
    ctx.canary('left-weighted agrees on the even-length test vector', left_weighted('7992739871') == ref.luhn_digit('7992739871'))
    ctx.canary('multiple-of-ten sum gives 0, not 10', ref.luhn_digit('19') == '0' and ref.luhn_digit('0000') == '0')
    ctx.canary('0<->9 transposition is the known blind spot', ref.luhn_valid('0' + '9' + ref.luhn_digit('09'))
               and ref.luhn_valid('9' + '0' + ref.luhn_digit('09')))

    class NeverRejects:
        @staticmethod
        def validate_check_digit(n):
            return None
        calculate_check_digit = staticmethod(ref.luhn_digit)
        add_check_digit = staticmethod(lambda s: s + ref.luhn_digit(s))
    probe = core.Ctx(ID, ctx.tier, ctx.seed)
    probe.card = NeverRejects
    check_string(probe, 'normal', '1234', True)
    ctx.canary('a validator that cannot fail is detected', any('substitution_accepted' in m for m in probe.violations))


def require(m):
    c = m['counters']
    reasons = []
    if c.get('thread alternations between consecutive Luhn calls', 0) < 20 and not m['violations']:
        reasons.append('threaded Luhn calls did not overlap')
    for flag in ('-O', '-OO'):
        if not c.get('child interpreters started with ' + flag):
            reasons.append('no child interpreter ran with ' + flag)
    if not c.get('interpreter reports optimize=1 for mode O') or not c.get('interpreter reports optimize=2 for mode OO') \
            or not c.get('interpreter reports optimize=0 for mode normal'):
        reasons.append('interpreter modes not all confirmed by sys.flags.optimize')
    if not c.get('single-digit substitutions judged') or not c.get('adjacent transpositions judged'):
        reasons.append('no mutation of a valid number was judged')
    if set(m['classes'].get('long payload length parities (over 64 digits)', ())) != {0, 1}:
        reasons.append('payloads longer than 64 digits of both parities not seen')
    if set(m['classes'].get('parities (payload length mod 2) seen', ())) != {0, 1}:
        reasons.append('both length parities not seen')
    return reasons


def child_main():
    tier = sys.argv[1]
    case = json.loads(sys.stdin.read())
    from .. import sentinel
    env.setup()
    ctx = core.Ctx(ID, tier, env.seed())
    prepare(ctx)
    sentinel.install()
    run_chunk(ctx, case)
    d = ctx.dump(0.0)
    sys.stdout.write(json.dumps(d, default=repr) + '\n')


if __name__ == '__main__':
    child_main()
