"""C16 - masking never discloses more than the first six and last four digits."""
import copy
import io

from .. import gen, msgwork
from ..ref import blocking as refb
from ..ref import codec as ref

ID = 'C16'
LEVEL = 'exploration'
ANCHORS = ('mask', '_iso8583_to_field', '_pan_prefix')
RULE = ('mask cases = (card number of every length 10..40, digits or arbitrary characters, mask character): same length, '
        'first six and last four kept, every position between is the mask character. decode cases = (configuration that puts '
        'the PAN or PAN-PREFIX processor on one variable-length element, codec, message): the element comes back masked / as '
        'its first nine characters and the clear card number (whole, without check digit, or its middle digits) occurs in no '
        'value of the returned dict (str, bytes, hex). Other fields are letters only, so a hit is a leak. Distinct by digest. '
        'Non-trivial: all.')
ASSUMPTIONS = ['vmon/ref/codec.py encoder builds the wire image (masking is decode-side only)', 'vmon/ref/blocking.py for the IpmReader route']


SPECIAL = ['\n', '\r', '\t', '\x00', '\x0b', '\x0c', '\x1c', '\x7f', '\x85', '\xa0', '\u2028', '\u2029', ' ', '\\', '$', '^', '.', '*', '{', '%', '=', 'D', ';', '?']


def prepare(ctx):
    from cardutil import iso8583, card, mciipm
    from cardutil.config import config
    ctx.iso, ctx.card, ctx.mciipm = iso8583, card, mciipm
    import cardutil
    ctx.CardutilError = cardutil.CardutilError
    msgwork.set_packaged(config['bit_config'])


def cases(ctx):
    rng = ctx.rng_global('mask')
    i = 0
    chars = [chr(c) for c in range(0x20, 0x7f)] + [chr(c) for c in rng.sample(range(0xa1, 0x100), 12)]
    reps = 1 if ctx.tier == 'quick' else 40
    for rep in range(reps):
        for n in range(10, 41):
            for kind in ('digits', 'arbitrary'):
                for ch in chars:
                    i += 1
                    if ctx.mine(i):
                        r = ctx.rng('pan', rep, n, kind, ch)
                        pan = ''.join(r.choice('0123456789') for _ in range(n)) if kind == 'digits' else \
                            ''.join(chr(r.randint(0x21, 0xff)) for _ in range(n))
                        yield {'kind': 'mask', 'pan': pan, 'ch': ch}
    # characters that text tools treat specially (line ends, NUL, regex and format metacharacters), at every kind of position
    for n in range(10, 41):
        for sp in SPECIAL:
            for pos in sorted({0, 5, 6, 7, n // 2, n - 5, n - 4, n - 1}):
                i += 1
                if ctx.mine(i):
                    r = ctx.rng('special', n, sp, pos)
                    digits = [r.choice('0123456789') for _ in range(n)]
                    digits[pos] = sp
                    yield {'kind': 'mask', 'pan': ''.join(digits), 'ch': '*' if (n + pos) % 2 else r.choice('X#0 '), 'special': True}
    if ctx.shard == 0:
        ctx.exhaustive_subspace('mask(): every length 10..40 x {digits, arbitrary} x %d mask characters' % len(chars),
                                31 * 2 * len(chars))
        ctx.exhaustive_subspace('mask(): every length 10..40 x %d special characters x 8 positions' % len(SPECIAL), 31 * len(SPECIAL) * 8)
    # decode under masking configurations: the processor on each variable text element of the packaged configuration in turn
    base = msgwork.cfg_of('packaged')
    var_text = [b for b in gen.data_bits(base) if base[str(b)]['field_type'] != 'FIXED'
                and not base[str(b)].get('field_processor') and gen.is_text(base[str(b)])]
    # the statement says "a field configured for PAN masking": fixed-width text elements wide enough for a card number too
    var_text += [b for b in gen.data_bits(base) if base[str(b)]['field_type'] == 'FIXED' and base[str(b)]['field_length'] >= 12
                 and not base[str(b)].get('field_processor') and gen.is_text(base[str(b)])]
    per = 8 if ctx.tier == 'quick' else 600
    for b in var_text:
        for proc in ('PAN', 'PAN-PREFIX'):
            for enc in ('latin_1', 'cp500'):
                for k in range(per):
                    i += 1
                    if ctx.mine(i):
                        yield {'kind': 'decode', 'cfg': 'packaged', 'bit': b, 'proc': proc, 'enc': enc, 'salt': k,
                               'route': ('loads', 'IpmReader', 'IpmReader1014')[k % 3]}
    if ctx.shard == 0:
        ctx.exhaustive_subspace('processor placed on each of the %d variable text elements of the packaged configuration x '
                                '{PAN, PAN-PREFIX} x {latin_1, cp500}' % len(var_text), len(var_text) * 4)
    # generated configurations that carry the processors themselves
    rng = ctx.rng('gencfg')
    n = 0
    for j in range((400 if ctx.tier == 'quick' else 80000) // ctx.nshards + 1):
        cid = ['gen', ctx.seed * 131 + rng.randint(0, 400)]
        cfg = msgwork.cfg_of(cid)
        pans = [int(b) for b, c in cfg.items() if c.get('field_processor') in ('PAN', 'PAN-PREFIX')]
        if not pans:
            continue
        b = rng.choice(pans)
        yield {'kind': 'decode', 'cfg': cid, 'bit': b, 'proc': cfg[str(b)]['field_processor'], 'enc': rng.choice(['latin_1', 'cp500', 'cp037']),
               'salt': rng.randint(0, 10 ** 6), 'route': rng.choice(['loads', 'IpmReader', 'IpmReader1014'])}


def judge(ctx, case):
    if case['kind'] == 'mask':
        return judge_mask(ctx, case)
    return judge_decode(ctx, case)


def judge_mask(ctx, case):
    pan, ch = case['pan'], case['ch']
    ctx.case_done(case)
    if case.get('special'):
        ctx.count('mask calls on numbers holding a special character')
    ctx.seen('card number lengths masked', len(pan))
    if ch == '*':
        kind, out = ctx.call(ctx.card.mask, pan, budget=20000)
    else:
        kind, out = ctx.call(ctx.card.mask, pan, ch, budget=20000)
    ctx.count('mask calls')
    if kind != 'ok':
        ctx.violation('mask:%s' % ('step_budget' if kind == 'steps' else 'exception:' + type(out).__name__), {'case': case})
        return
    n = len(pan)
    if len(out) != n:
        ctx.violation('mask:length_changed', {'case': case, 'got': out})
    elif out[:6] != pan[:6] or out[n - 4:] != pan[n - 4:]:
        ctx.violation('mask:first6_or_last4_altered', {'case': case, 'got': out})
    elif any(out[k] != ch for k in range(6, n - 4)):
        ctx.violation('mask:middle_character_survives', {'case': case, 'got': out})
    elif len(ctx.samples) < 2:
        ctx.sample({'pan': pan, 'mask_char': ch, 'masked': out})


def leak(pan, value, enc):
    """Where the clear card number (or a telling part of it) shows in one value, else None."""
    needles = {'whole': pan, 'without_check_digit': pan[:-1]}
    only_digits = ''.join(ch for ch in pan if ch.isdigit())
    if only_digits != pan and len(only_digits) >= 11:
        needles['digits_without_separators'] = only_digits
    mid = pan[6:len(pan) - 4]
    if len(mid) >= 6:
        needles['middle_digits'] = mid
    for name, nd in needles.items():
        if isinstance(value, str):
            if nd in value:
                return name
            if nd.encode(enc).hex() in value.lower() or nd.encode('ascii').hex() in value.lower():
                return name + ':hex'
        elif isinstance(value, (bytes, bytearray)):
            if nd.encode(enc) in value or nd.encode('ascii') in value:
                return name + ':bytes'
        elif nd in str(value):
            return name + ':repr'
    return None


def letters(rng, n):
    return ''.join(rng.choice('ABCDEFGHJKLMNPQRSTUVWXYZ ') for _ in range(n))


def judge_decode(ctx, case):
    iso = ctx.iso
    cfg = msgwork.cfg_of(case['cfg'])
    b, proc, enc = case['bit'], case['proc'], case['enc']
    rng = ctx.rng_global('msg', case['cfg'], b, proc, enc, case['salt'])
    if case['cfg'] == 'packaged':
        cfg = copy.deepcopy(cfg)
        cfg[str(b)]['field_processor'] = proc
        if case['salt'] % 2:
            cfg[str(b)]['field_python_type'] = 'string'    # the documented example configuration spells the default out
            ctx.count('masked elements that also spell out field_python_type string')
        if case['salt'] % 3 == 1:
            cfg[str(b)]['field_processor_config'] = ''     # so does the documented example: the optional key, left empty
            ctx.count('masked elements that also carry an empty field_processor_config')
    w = ref.PREFIX[cfg[str(b)]['field_type']]
    if w:
        n = rng.choice([11, 12, 13, 16, 16, 19, rng.randint(11, min(40, 10 ** w - 1))])
    else:
        n = cfg[str(b)]['field_length']
        ctx.count('fixed-width elements carrying a masking processor')
    pan = ''.join(rng.choice('0123456789') for _ in range(n))
    shape = case['salt'] % 8
    if shape == 3 and n >= 16:
        # "every card number of 10 or more characters": grouped with separators, or carrying letters
        sep = rng.choice(' -')
        pan = ''.join(ch if (k + 1) % 5 else sep for k, ch in enumerate(pan))
        ctx.count('card numbers with separators decoded')
    elif shape == 4 and n >= 14:
        pan = ''.join(ch if k % 3 else rng.choice('ABCDEFGH') for k, ch in enumerate(pan))
        ctx.count('card numbers with letters decoded')
    elif shape in (5, 6) and n >= 12:
        # a line end or another control character inside the value (x'0A' in Latin-1, x'25' in EBCDIC): still a value to mask
        sp = rng.choice('\n\n\r\t\x00\x0b\x0c')
        at = rng.randint(6, n - 5) if shape == 5 else rng.choice([n - 1, n - 4, 0, 5])
        pan = pan[:at] + sp + pan[at + 1:]
        ctx.count('card numbers with a control character decoded')
    numeric = None
    fl = cfg[str(b)]['field_length']
    if shape == 7 and case['cfg'] == 'packaged' and (n <= 28 if not fl else 11 <= fl <= 28):
        # the masked element also declared as a number: whatever decoding then does (refuse, or return the prefix as a
        # number), the clear card number must not come back
        numeric = ('int', 'long', 'decimal')[(case['salt'] // 8 + b) % 3]
        cfg[str(b)]['field_python_type'] = numeric
        if fl:                              # numbers are written zero-filled to the configured width: use all of it
            n = fl
            pan = ''.join(rng.choice('0123456789') for _ in range(n))
        pan = str(rng.randint(1, 9)) + pan[1:]
        ctx.count('masked elements declared as a number')
    msg = {'MTI': '1240', 'DE%d' % b: int(pan) if numeric else pan}
    # other elements: letters only (cannot coincide with the PAN's digits)
    for ob in rng.sample(gen.data_bits(cfg), min(5, len(gen.data_bits(cfg)))):
        oc = cfg[str(ob)]
        if ob == b or not gen.is_text(oc) or oc.get('field_processor') in ('PAN', 'PAN-PREFIX', 'ICC'):
            continue
        if oc.get('field_processor') == 'PDS':
            val = letters(rng, rng.randint(1, 30))
            msg['DE%d' % ob] = '%04d%03d%s' % (rng.randint(1, 9999), len(val), val)
        elif oc['field_type'] == 'FIXED':
            msg['DE%d' % ob] = letters(rng, oc['field_length'])
        elif oc.get('field_processor') == 'DE43':
            msg['DE%d' % ob] = 'SHOP\\HIGH ST\\TOWN\\ABCDEFGHIJNSWAUS'
        else:
            msg['DE%d' % ob] = letters(rng, rng.randint(1, 30))
    ctx.case_done(case)
    ctx.seen('card number lengths decoded', n)
    ctx.seen('routes', case['route'])
    ctx.seen('processor placements', '%s@DE%d' % (proc, b) if case['cfg'] == 'packaged' else proc + '@generated')
    wire = ref.encode(msg, cfg, enc)
    if case['salt'] % 7 == 5:
        # the configuration OBJECT was already used for a decode before masking was switched on in it
        live = copy.deepcopy(cfg)
        live[str(b)].pop('field_processor', None)
        ctx.call(iso.loads, wire, encoding=enc, iso_config=live, budget=400000)
        if case['salt'] % 2:
            live[str(b)]['field_processor'] = proc
        else:
            # not the entry edited, but the entry replaced by a new dict: the configuration object is the same one
            live[str(b)] = dict(live[str(b)], field_processor=proc)
            ctx.count('decodes after the masked element entry was replaced in an already used configuration object')
        cfg = live
        ctx.count('decodes after masking was switched on in an already used configuration object')
    if case['route'] == 'loads':
        kind, back = ctx.call(iso.loads, wire, encoding=enc, iso_config=cfg, budget=400000)
    else:
        blocked = case['route'] == 'IpmReader1014'
        data = refb.vbs([wire])
        if blocked:
            data = refb.block(data)

        def body():
            return list(ctx.mciipm.IpmReader(io.BytesIO(data), encoding=enc, iso_config=cfg, blocked=blocked))
        kind, back = ctx.call(body, budget=400000)
        if kind == 'ok':
            if len(back) != 1:
                ctx.violation('decode:reader_record_count', {'case': case, 'count': len(back)})
                return
            back = back[0]
    ctx.count('decodes under a masking configuration')
    if numeric and kind == 'exc' and isinstance(back, ctx.CardutilError):
        ctx.count('numeric masked element: decoding refused with the library error (nothing returned)')
        return
    if kind != 'ok':
        ctx.violation('decode:%s' % ('step_budget' if kind == 'steps' else 'exception:' + type(back).__name__),
                      {'case': case, 'error': repr(back)})
        return
    key = 'DE%d' % b
    want = ref.mask(pan) if proc == 'PAN' else pan[:9]
    got_v = back.get(key)
    if numeric and proc == 'PAN-PREFIX' and not isinstance(got_v, str) and got_v is not None and str(got_v) == want:
        got_v = want                      # the nine-digit prefix, as the number the configuration asked for
    if got_v != want:
        ctx.violation('decode:%s_value_not_%s' % (proc, 'masked' if proc == 'PAN' else 'nine_character_prefix'),
                      {'case': case, 'pan': pan, 'got': repr(back.get(key)), 'want': want})
        return
    for k, v in back.items():
        where = leak(pan, v, enc)
        if where:
            ctx.violation('decode:clear_pan_leaked:%s' % ('same_key' if k == key else 'other_key'),
                          {'case': case, 'pan': pan, 'key': k, 'how': where, 'value': repr(v)[:120]})
            return
    if len(ctx.samples) < 5:
        ctx.sample({'cfg': case['cfg'], 'element': key, 'processor': proc, 'enc': enc, 'route': case['route'], 'pan': pan,
                    'returned': back.get(key), 'keys_searched': len(back)})


def canaries(ctx):
    ctx.canary('leak finder sees the whole number', leak('1234567890123456', 'xx1234567890123456yy', 'latin_1') == 'whole')
    ctx.canary('leak finder sees hex', leak('1234567890123456', '1234567890123456'.encode('cp500').hex(), 'cp500') is not None)
    ctx.canary('leak finder sees bytes', leak('1234567890123456', b'..' + '1234567890123456'.encode('cp500'), 'cp500') is not None)
    ctx.canary('masked value is clean', leak('1234567890123456', '123456******3456', 'latin_1') is None)
    ctx.canary('prefix of nine is clean for 16 digits', leak('1234567890123456', '123456789', 'latin_1') is None)
    ctx.canary('reference mask', ref.mask('12345678901') == '123456*8901' and ref.mask('1234567890') == '1234567890')


def require(m):
    reasons = []
    if set(m['classes'].get('card number lengths masked', ())) != set(range(10, 41)):
        reasons.append('mask(): lengths 10..40 not all driven')
    for need in ('masked elements declared as a number', 'card numbers with separators decoded', 'card numbers with letters decoded', 'card numbers with a control character decoded',
                 'mask calls on numbers holding a special character',
                 'decodes after masking was switched on in an already used configuration object',
                 'decodes after the masked element entry was replaced in an already used configuration object',
                 'masked elements that also carry an empty field_processor_config'):
        if not m['counters'].get(need):
            reasons.append('never driven: ' + need)
    if not m['counters'].get('fixed-width elements carrying a masking processor'):
        reasons.append('no fixed-width element carried a masking processor')
    if set(m['classes'].get('routes', ())) != {'loads', 'IpmReader', 'IpmReader1014'}:
        reasons.append('decode routes not all driven')
    pl = set(m['classes'].get('processor placements', ()))
    if not any(p.startswith('PAN@DE') for p in pl) or not any(p.startswith('PAN-PREFIX@DE') for p in pl):
        reasons.append('processor placements on packaged elements missing')
    return reasons
