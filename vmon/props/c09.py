"""C09 - a file cut short at any byte yields only its complete records, then stops or raises the library error."""
import datetime
import io
import os
import shutil
import tempfile

from ..ref import blocking as ref
from .c03 import content

ID = 'C09'
LEVEL = 'fault_enumeration'
ANCHORS = ('VbsReader.__next__', 'Unblock1014.read', 'IpmReader.__next__')
RULE = ('case = (file, truncation offset t); every t in 0..len(file) is enumerated for every file. The reader run on '
        'file[:t] must yield exactly the records that the reference reader finds wholly inside the surviving payload '
        'stream, then end or raise MciIpmDataError. Distinct by construction (file, t). Non-trivial: t > 0.')
ASSUMPTIONS = ['vmon/ref/blocking.py (payload stream of a cut file = first 1012 bytes of each surviving 1014-byte chunk)',
               'for IPM files the expected dicts are the real decoder\'s output on each complete record (C01/C02 judge the decoder)']

QUICK_FILES = [
    {'fmt': 'vbs', 'lens': [5, 1, 300, 40], 'content': 'coded'},
    {'fmt': 'vbs', 'lens': [1004], 'content': 'zeros'},
    {'fmt': '1014', 'lens': [1004], 'content': 'coded'},                 # exactly one block of payload
    {'fmt': '1014', 'lens': [1000, 1012], 'content': 'fill'},            # exactly two blocks of payload
    {'fmt': '1014', 'lens': [1008, 3, 1005, 2020, 7], 'content': 'coded'},
    {'fmt': '1014', 'lens': [1, 1006, 1010, 1016, 9], 'content': 'term_tail'},
    {'fmt': 'ipm-vbs', 'n': 4},
    {'fmt': 'ipm-1014', 'n': 6},
    {'fmt': '1014', 'lens': [100, 5500, 50, 300], 'content': 'coded'},          # one large record, small ones after it
    {'fmt': '1014', 'lens': [4096, 4100, 6000, 7], 'content': 'random'},
    {'fmt': 'vbs', 'lens': [6000, 3, 4095], 'content': 'coded'},
    # the maximum record length is whatever the configuration says at the time of reading: raised at run time here
    {'fmt': 'vbs', 'lens': [300, 7000, 20, 6001, 5], 'content': 'coded', 'configured_max': 12000},
    {'fmt': '1014', 'lens': [40, 6500, 7], 'content': 'random', 'configured_max': 9000},
]
CHUNK = 150


def prepare(ctx):
    from cardutil import mciipm, iso8583
    import cardutil
    ctx.mciipm, ctx.iso8583, ctx.CardutilError = mciipm, iso8583, cardutil.CardutilError


def ipm_messages(ctx, n, salt=0):
    """A few shapes, sized so that records straddle block boundaries.  Built with the real encoder."""
    out = []
    for i in range(n):
        k = (i + salt) % 5
        m = {'MTI': '1%03d' % (240 + k), 'DE2': '5%015d' % (i * 7 + salt), 'DE3': '00%04d' % i, 'DE4': 100 + i,
             'DE12': datetime.datetime(2023, 1 + i % 12, 1 + i % 27, 12, i % 60, 0)}
        if k in (1, 3):
            m['PDS0023'] = 'NA%d' % i
            m['PDS0148'] = 'X' * (300 + 150 * k + (salt % 50))
        if k == 2:
            m['DE72'] = 'R' * (930 + salt % 60)
        if k == 4:
            m['DE55'] = bytes.fromhex('9f2608' + '1122334455667788' + '9f270180' + '5f2a020036')
            m['DE43'] = 'SHOP %d\\1 MAIN ST\\SYDNEY\\2000      NSWAUS' % i
        out.append(m)
    return out


def spec_files(ctx):
    specs = list(QUICK_FILES)
    if True:
        rng = ctx.rng_global('files')
        n_raw, n_ipm = (260, 40) if ctx.tier == 'thorough' else (14, 3)
        pool = [1, 2, 3, 4, 5, 996, 1000, 1003, 1004, 1005, 1006, 1007, 1008, 1009, 1010, 1011, 1012, 1013, 1014, 1015,
                1016, 2016, 2020, 2021, 2022, 2024, 2026, 2028, 2030, 3036, 4040, 4096, 4100, 5056, 5500, 5996, 6000, 64, 4048]
        for j in range(n_raw):
            k = rng.randint(1, 12)
            lens = [rng.choice(pool) if rng.random() < 0.7 else rng.randint(1, 400) for _ in range(k)]
            specs.append({'fmt': rng.choice(['vbs', '1014', '1014']), 'lens': lens,
                          'content': rng.choice(['coded', 'zeros', 'fill', 'term_head', 'pad_tail', 'random'])})
        for j in range(n_ipm):
            specs.append({'fmt': rng.choice(['ipm-vbs', 'ipm-1014']), 'n': rng.randint(1, 9), 'salt': rng.randint(1, 999),
                          'enc': rng.choice(['latin_1', 'cp500'])})
    return specs


_cache = {}


def build(ctx, spec):
    key = repr(sorted(spec.items()))
    if key in _cache:
        return _cache[key]
    if spec['fmt'].startswith('ipm'):
        enc = spec.get('enc', 'latin_1')
        msgs = ipm_messages(ctx, spec['n'], spec.get('salt', 0))
        recs = [ctx.iso8583.dumps(dict(m), encoding=enc) for m in msgs]
        expect = [ctx.iso8583.loads(r, encoding=enc) for r in recs]
    else:
        recs = [content(spec['content'], n, i) for i, n in enumerate(spec['lens'])]
        expect = recs
    stream = ref.vbs(recs)
    data = ref.block(stream) if spec['fmt'].endswith('1014') else stream
    _cache.clear()
    _cache[key] = (data, recs, expect)
    return _cache[key]


def cases(ctx):
    i = 0
    total = 0
    for spec in spec_files(ctx):
        data, _, _ = build(ctx, spec)
        total += len(data) + 1
        for lo in range(0, len(data) + 1, CHUNK):
            if ctx.mine(i):
                yield {'file': spec, 'offsets': [lo, min(lo + CHUNK - 1, len(data))]}
            i += 1
    if ctx.shard == 0:
        ctx.exhaustive_subspace('every truncation offset of every generated file', total)


class PipeLike:
    """
    A non-seekable binary stream that always returns full reads (what a BufferedReader over a pipe or socket gives):
    read() works, tell()/seek() fail the way they do on a pipe.
    """

    def __init__(self, data):
        self._b = io.BytesIO(data)

    def read(self, n=-1):
        return self._b.read(n)

    def readable(self):
        return True

    def seekable(self):
        return False

    def tell(self):
        raise OSError(29, 'Illegal seek')

    def seek(self, *a):
        raise OSError(29, 'Illegal seek')

    def fileno(self):
        raise OSError('no file descriptor')


def run_reader(ctx, spec, data, source='bytesio'):
    m = ctx.mciipm
    blocked = spec['fmt'].endswith('1014')
    got = []

    def opened():
        if source == 'pipe':
            return PipeLike(data)
        if source == 'disk':
            if not getattr(ctx, 'tmpdir', None):
                ctx.tmpdir = tempfile.mkdtemp(prefix='vmon-c09-')
            path = os.path.join(ctx.tmpdir, 'cut.bin')
            with open(path, 'wb') as f:
                f.write(data)
            return open(path, 'rb')
        return io.BytesIO(data)

    def body():
        f = opened()
        try:
            return _iterate(f)
        finally:
            if source == 'disk':
                f.close()

    def _iterate(f):
        if spec['fmt'].startswith('ipm'):
            rdr = m.IpmReader(f, encoding=spec.get('enc', 'latin_1'), blocked=blocked)
        else:
            rdr = m.VbsReader(f, blocked=blocked)
        for rec in rdr:
            got.append(rec)
    kind, val = ctx.call(body, budget=60000 + 60 * len(data))
    return kind, val, got


def judge(ctx, case):
    spec = case['file']
    data, recs, expect = build(ctx, spec)
    blocked = spec['fmt'].endswith('1014')
    lo, hi = case['offsets']
    cmax = spec.get('configured_max')
    if cmax:
        from cardutil.config import config as live
        saved = live.get('MAX_VBS_RECORD_LENGTH')
        live['MAX_VBS_RECORD_LENGTH'] = cmax
        ctx.count('truncated files read with the configured maximum raised at run time')
        try:
            return judge_offsets(ctx, case, spec, data, recs, expect, blocked, lo, hi, cmax)
        finally:
            if saved is None:
                live.pop('MAX_VBS_RECORD_LENGTH', None)
            else:
                live['MAX_VBS_RECORD_LENGTH'] = saved
    return judge_offsets(ctx, case, spec, data, recs, expect, blocked, lo, hi, 6000)


def judge_offsets(ctx, case, spec, data, recs, expect, blocked, lo, hi, max_len):
    for t in range(lo, hi + 1):
        cut = data[:t]
        P = ref.payload_stream(cut) if blocked else cut
        want_raw, ending = ref.vbs_records_in(P, max_len)
        want = expect[:len(want_raw)]
        # the reference reader must itself agree that the surviving records are a prefix of the originals
        if want_raw != recs[:len(want_raw)]:
            ctx.inconclusive_because('reference reader disagrees with the generator (oracle bug)')
            return
        # the source of the bytes must not matter: in-memory, a non-seekable stream (interrupted transfer), a disk file
        source = 'pipe' if t % 5 == 2 else 'disk' if t % 41 == 7 else 'bytesio'
        kind, val, got = run_reader(ctx, spec, cut, source)
        ctx.count('reader runs on truncated files')
        ctx.count('source: ' + source)
        narrowed = {'file': spec, 'offsets': [t, t]}
        ctx.seen('endings predicted by the model', ending)
        if kind == 'steps':
            ctx.violation('reader:step_budget', {'case': narrowed, 'site': val})
        elif kind == 'exc' and not isinstance(val, ctx.mciipm.MciIpmDataError):
            ctx.violation('reader:exception:%s' % type(val).__name__, {'case': narrowed, 'error': repr(val)})
        else:
            ctx.count('terminated by ' + ('end of iteration' if kind == 'ok' else 'MciIpmDataError') + ' when model says ' + ending)
        if got != want:
            n_ok = 0
            for a, b in zip(got, want):
                if a != b:
                    break
                n_ok += 1
            if len(got) > len(want):
                mech = 'records:extra_or_partial_record_delivered'
            elif len(got) < len(want) and got == want[:len(got)]:
                mech = 'records:complete_record_not_delivered'
            else:
                mech = 'records:altered_record_delivered'
            ctx.violation(mech, {'case': narrowed, 'file_len': len(data), 'want_count': len(want),
                                 'got_count': len(got), 'first_bad_index': n_ok,
                                 'got_lens': [len(r) for r in got][:14] if not spec['fmt'].startswith('ipm') else None})
        cutpos = t % 1014 if blocked else None
        if blocked:
            ctx.seen('cut position classes', 'in_trailer' if cutpos in (1013,) else 'block_edge' if cutpos in (0, 1012)
                     else 'in_payload')
    ctx.case_done(nontrivial=True, enumerated=True, n=hi - lo + 1 - (1 if lo == 0 else 0))
    if lo == 0:
        ctx.case_done(nontrivial=False)
        ctx.sample({'file': spec, 'file_len': len(data), 'records': len(recs), 'offsets': 'every t in 0..%d' % len(data)})


def canaries(ctx):
    ctx.repo_tests_under_monitors(('C09',))       # second, independent workload for the same oracle
    recs = [b'abcde', b'x' * 1008, b'yz']
    s = ref.vbs(recs)
    ctx.canary('cut inside 2nd record keeps only the first', ref.vbs_records_in(s[:500]) == ([recs[0]], 'short_record'))
    ctx.canary('cut inside a prefix is end of data', ref.vbs_records_in(s[:11]) == ([recs[0]], 'end'))
    b = ref.block(s)
    ctx.canary('payload of cut blocked file', ref.payload_stream(b[:1013]) == s[:1012] and ref.payload_stream(b[:1016]) == s[:1014])
    ctx.canary('full file gives all', ref.vbs_records_in(ref.payload_stream(b)) == (recs, 'end'))


def require(m):
    reasons = []
    if not m['counters'].get('truncated files read with the configured maximum raised at run time') and not m['violations']:
        reasons.append('no truncated file read with the configured maximum raised at run time')
    need = {'end', 'short_record'}
    if not need <= set(m['classes'].get('endings predicted by the model', ())):
        reasons.append('model endings not all exercised')
    for src in ('pipe', 'disk', 'bytesio'):
        if not m['counters'].get('source: ' + src):
            reasons.append('source never used: ' + src)
    if not {'in_trailer', 'block_edge', 'in_payload'} <= set(m['classes'].get('cut position classes', ())):
        reasons.append('cut positions in blocked files not all exercised')
    return reasons
