"""C14 - PVV, key check value and key-part combination match the published algorithms."""
import itertools

from ..ref import cards as ref
from ..ref import crypto as refc

ID = 'C14'
LEVEL = 'exploration'
ANCHORS = ('_get_tsp', 'calculate_pvv', 'VisaPVVPinBlockMixin.to_pvv', 'get_zone_master_key', 'get_enc_zone_master_key',
           'calculate_kcv', 'encrypt_key')
RULE = ('PVV cases = (PIN 4..12 digits, PAN 13..19 digits, key index 0..9, DES/2-key/3-key TDES key), enumerated over the '
        'lengths with seeded digits, plus cases constructed backwards from a chosen ciphertext so that the second '
        'decimalisation scan supplies exactly d = 0,1,2,3,4 digits. Key cases = component lists (2..5 parts of 16 or 24 bytes), '
        'all permutations and duplicate insertions, KCV lengths 1..16, encrypted zone keys. Results compared with a '
        'from-scratch DES/TDES. Distinct by digest. Non-trivial: all.')
ASSUMPTIONS = ['vmon/ref/crypto.py, vmon/ref/cards.py', 'the cryptography package is used only as a fast search aid to find '
               'plaintexts for the second-scan construction; every kept case is judged with the reference cipher']


def prepare(ctx):
    from cardutil import pinblock, key
    ctx.pb, ctx.key = pinblock, key
    refc.selftest(cross_check=False)
    P = pinblock
    ctx.mix0 = P.Iso0TDESPinBlockWithVisaPVV
    ctx.mix4 = type('M4', (P.Iso4PinBlock, P.VisaPVVPinBlockMixin), {})


def digits(rng, n):
    return ''.join(rng.choice('0123456789') for _ in range(n))


def construct_second_scan(rng, d, want):
    """
    Find `want` (key, tsp) pairs whose TDES ciphertext has exactly 4-d decimal digits (d >= 1) or >= 4 (d == 0).
    Works backwards: choose the ciphertext, decrypt, keep if the plaintext is 16 decimal digits.
    """
    from cryptography.hazmat.primitives.ciphers import Cipher, modes
    from cryptography.hazmat.decrepit.ciphers import algorithms as dalg
    out = []
    tries = 0
    while len(out) < want and tries < 400:
        tries += 1
        klen = rng.choice([8, 16, 24])
        key = rng.randbytes(klen)
        batch = 4000
        buf = bytearray()
        for _ in range(batch):
            if d == 0:
                hx = ''.join(rng.choice('0123456789abcdef') for _ in range(16))
                while sum(ch.isdigit() for ch in hx) < 4:      # d = 0 means the first scan already finds four digits
                    hx = ''.join(rng.choice('0123456789abcdef') for _ in range(16))
            else:
                pos = set(rng.sample(range(16), 4 - d))
                hx = ''.join(rng.choice('0123456789') if k in pos else rng.choice('abcdef') for k in range(16))
            buf += bytes.fromhex(hx)
        dec = Cipher(dalg.TripleDES(key if klen != 8 else key * 2), modes.ECB()).decryptor()
        plain = dec.update(bytes(buf)) + dec.finalize()
        for j in range(batch):
            p = plain[8 * j:8 * j + 8].hex()
            if p.isdigit():
                out.append((key, p, buf[8 * j:8 * j + 8].hex()))
                if len(out) >= want:
                    break
    return out


def cases(ctx):
    rng = ctx.rng('pvv')
    reps = 6 if ctx.tier == 'quick' else 300
    i = 0
    g = ctx.rng_global('grid')
    for rep in range(reps):
        for plen in range(4, 13):
            for panlen in range(13, 20):
                for klen in (8, 16, 24):
                    idx = (plen + panlen + rep + klen) % 10
                    c = {'kind': 'pvv', 'pin': digits(g, plen), 'pan': digits(g, panlen), 'index': idx,
                         'key': g.randbytes(klen).hex(), 'via': ('function', 'mixin0', 'mixin4')[(plen + panlen + klen // 8) % 3]}
                    if ctx.mine(i):
                        yield c
                    i += 1
    if ctx.shard == 0:
        ctx.exhaustive_subspace('PIN length 4..12 x PAN length 13..19 x key length {8,16,24} (digits seeded)', 9 * 7 * 3)
    # second-scan construction, every d in every shard that has work
    per = {0: 3, 1: 3, 2: 3, 3: 3, 4: 2} if ctx.tier == 'quick' else {0: 60, 1: 60, 2: 60, 3: 60, 4: 40}
    for d, want in per.items():
        for key, tsp, ct in construct_second_scan(rng, d, want):
            extra = digits(rng, rng.randint(0, 8))
            pan = digits(rng, rng.randint(1, 7)) + tsp[:11] + rng.choice('0123456789')
            yield {'kind': 'pvv', 'pin': tsp[12:] + extra, 'pan': pan, 'index': int(tsp[11]), 'key': key.hex(),
                   'via': rng.choice(['function', 'mixin0', 'mixin4']), 'constructed_d': d, 'ciphertext': ct}
    # key components
    rng = ctx.rng('keys')
    for j in range((320 if ctx.tier == 'quick' else 40000) // ctx.nshards + 1):
        size = rng.choice([8, 16, 16, 24])
        parts = [rng.randbytes(size).hex() for _ in range(rng.randint(2, 5))]
        if rng.random() < 0.3:
            z = rng.choice([1, 2, 15, 16])
            parts[0] = ('0' * z) + parts[0][z:]
            parts[0] = parts[0][:2 * size].ljust(2 * size, '0')
        yield {'kind': 'keys', 'parts': parts, 'master': rng.randbytes(rng.choice([16, 24])).hex(),
               'upper': rng.random() < 0.3}
    for j in range((16 if ctx.tier == 'quick' else 200) // ctx.nshards + 1):
        yield {'kind': 'kcv', 'key': rng.randbytes(rng.choice([16, 24])).hex()}
    if ctx.shard == 1:
        yield {'kind': 'threads', 'threads': 6, 'salt': ctx.seed}


def fail(ctx, case, mech, detail):
    ctx.violation(mech, {'case': case, 'detail': detail})


def call(ctx, case, what, fn, *a, **kw):
    kind, val = ctx.call(fn, *a, budget=50000, **kw)
    ctx.count(what + ' calls')
    if kind == 'ok':
        return True, val
    return False, (kind, val)


def judge_threads(ctx, case):
    """PVVs and key check values asked for from several threads at once: every caller gets its own answer."""
    from ..core import threaded_agreement
    rng = ctx.rng_global('thr14', case['salt'])
    plans = []
    for t in range(case['threads']):
        plan = []
        for _ in range(8):
            pin = ''.join(rng.choice('0123456789') for _ in range(rng.randint(4, 12)))
            pan = ''.join(rng.choice('0123456789') for _ in range(rng.randint(13, 19)))
            key = rng.randbytes(rng.choice([8, 16, 24])).hex()
            idx = rng.randint(0, 9)
            want = ref.pvv_from_cipher_hex(refc.tdes_ecb_encrypt(bytes.fromhex(key), bytes.fromhex(ref.pvv_tsp(pin, pan, idx))).hex())
            plan.append((ctx.pb.calculate_pvv, (pin, key, idx, pan), want))
            k2 = rng.randbytes(16)
            plan.append((ctx.key.calculate_kcv, (k2,), ref.kcv(k2)))
        plans.append(plan)
    bad, alternations = threaded_agreement(plans, rounds=60 if ctx.tier == 'quick' else 600)
    ctx.case_done(['threads', case['salt']])
    ctx.count('thread alternations between consecutive PVV / KCV calls', alternations)
    if bad:
        fail(ctx, case, 'threads:a_caller_got_another_answer', {'thread': bad[0][0], 'call': bad[0][1], 'got': bad[0][2]})


def judge(ctx, case):
    if case['kind'] == 'threads':
        return judge_threads(ctx, case)
    if case['kind'] == 'pvv':
        return judge_pvv(ctx, case)
    if case['kind'] == 'keys':
        return judge_keys(ctx, case)
    return judge_kcv(ctx, case)


def judge_pvv(ctx, case):
    pin, pan, idx, key = case['pin'], case['pan'], case['index'], case['key']
    kb = bytes.fromhex(key)
    ct = refc.tdes_ecb_encrypt(kb, bytes.fromhex(ref.pvv_tsp(pin, pan, idx))).hex()
    want = ref.pvv_from_cipher_hex(ct)
    d = ref.second_scan_digits(ct)
    if 'constructed_d' in case and (case['constructed_d'] != d or case.get('ciphertext') != ct):
        ctx.inconclusive_because('second-scan construction not reproduced by the reference cipher (generator bug)')
        return
    ctx.seen('digits supplied by the second scan', d)
    ctx.seen('PIN lengths', len(pin))
    ctx.seen('key indexes', idx)
    ctx.seen('key lengths', len(kb))
    ctx.case_done(['pvv', pin, pan, idx, key, case['via']])
    via = case['via']
    if via == 'function':
        ok, got = call(ctx, case, 'calculate_pvv', ctx.pb.calculate_pvv, pin=pin, pvv_key=key, key_index=idx, card_number=pan)
    elif via == 'mixin0':
        def body():
            return ctx.mix0(pin=pin, card_number=pan).to_pvv(pvv_key=key, key_index=idx)
        ok, got = call(ctx, case, 'to_pvv', body)
    else:
        def body():
            return ctx.mix4(pin=pin).to_pvv(pvv_key=key, key_index=idx, card_number=pan)
        ok, got = call(ctx, case, 'to_pvv', body)
    long_pin = ':pin_longer_than_4' if len(pin) > 4 else ''
    if not ok:
        kind, val = got
        fail(ctx, case, 'pvv:%s%s' % ('step_budget' if kind == 'steps' else 'exception:' + type(val).__name__, long_pin),
             {'error': repr(val)})
        return
    if got != want:
        fail(ctx, case, 'pvv:wrong_value%s:second_scan_%d' % (long_pin, d), {'got': got, 'want': want, 'ciphertext': ct})
        return
    if not (isinstance(got, str) and len(got) == 4 and got.isdigit()):
        fail(ctx, case, 'pvv:not_four_decimal_digits', {'got': repr(got)})
        return
    # the same pin block object asked again for another card, another key index and another key: each answer is the PVV of
    # what was asked, not of what was asked before
    if via != 'function':
        def pvv_ref(pan_, idx_, key_):
            return ref.pvv_from_cipher_hex(refc.tdes_ecb_encrypt(bytes.fromhex(key_), bytes.fromhex(ref.pvv_tsp(pin, pan_, idx_))).hex())
        pan2 = pan[:-5] + str((int(pan[-5]) + 1) % 10) + pan[-4:]
        key2 = key[:-2] + ('%02x' % (int(key[-2:], 16) ^ 0x10))
        asks = [(pan, idx, key), (pan2, idx, key), (pan, (idx + 1) % 10, key), (pan, idx, key2), (pan2, idx, key), (pan, idx, key)]
        if via == 'mixin0':
            obj = ctx.mix0(pin=pin, card_number=pan)
        else:
            obj = ctx.mix4(pin=pin)
        for pan_, idx_, key_ in asks:
            if via == 'mixin0':
                obj.card_number = pan_          # a format-0 block carries its card number: point it at the other card
                ok, got2 = call(ctx, case, 'to_pvv', obj.to_pvv, pvv_key=key_, key_index=idx_)
            else:
                ok, got2 = call(ctx, case, 'to_pvv', obj.to_pvv, pvv_key=key_, key_index=idx_, card_number=pan_)
            ctx.count('repeated to_pvv calls on one pin block object')
            if not ok or got2 != pvv_ref(pan_, idx_, key_):
                fail(ctx, case, 'pvv:wrong_value_on_a_repeated_call_with_other_arguments', {'asked': [pan_, idx_, key_], 'got': repr(got2),
                                                                                          'want': pvv_ref(pan_, idx_, key_)})
                return
    if d >= 2 or len(ctx.samples) < 2:
        ctx.sample({'pin': pin, 'pan': pan, 'index': idx, 'key_bytes': len(kb), 'ciphertext': ct, 'pvv': want,
                    'second_scan_digits': d})


def judge_keys(ctx, case):
    K = ctx.key
    parts = [p.upper() if case['upper'] else p for p in case['parts']]
    size = len(parts[0]) // 2
    xor = ref.xor_components(case['parts'])
    want_hex = xor.hex()
    ctx.case_done(['keys', parts, case['master']])
    ctx.seen('component sizes', size)
    ctx.seen('component counts', len(parts))
    lead = ':leading_zero_nibble' if want_hex[0] == '0' else ''
    ok, got = call(ctx, case, 'get_zone_master_key', K.get_zone_master_key, *parts)
    if not ok:
        kind, val = got
        fail(ctx, case, 'combine:%s:%d_byte_components%s' % ('step_budget' if kind == 'steps' else 'exception:' + type(val).__name__,
                                                            size, lead), {'error': repr(val), 'xor': want_hex})
        return
    key_hex, kcv = got
    if key_hex.lower() != want_hex:
        fail(ctx, case, 'combine:not_the_xor:%d_byte_components%s' % (size, lead), {'got': key_hex, 'want': want_hex})
        return
    if kcv != ref.kcv(xor):
        fail(ctx, case, 'combine:wrong_kcv', {'got': kcv, 'want': ref.kcv(xor)})
        return
    # metamorphic: order independence (all permutations up to 4 parts, 12 seeded beyond) and x ^ x cancels
    perms = list(itertools.permutations(parts))
    if len(perms) > 24:
        perms = perms[::len(perms) // 12]
    for p in perms[1:]:
        ok, g2 = call(ctx, case, 'get_zone_master_key', K.get_zone_master_key, *p)
        ctx.count('permutations judged')
        if not ok or g2[0].lower() != want_hex:
            fail(ctx, case, 'combine:order_dependent', {'order': list(p), 'got': repr(g2)})
            return
    dup = parts + [parts[1], parts[1]]
    ok, g3 = call(ctx, case, 'get_zone_master_key', K.get_zone_master_key, *dup)
    ctx.count('duplicate insertions judged')
    if not ok or g3[0].lower() != want_hex:
        fail(ctx, case, 'combine:duplicate_component_does_not_cancel', {'got': repr(g3)})
        return
    # the same components again in this process with one of them given once more: it cancels, so the result is the XOR of
    # the others (an answer remembered from the earlier calls with the same set of components would be wrong)
    for j in (1, 0):
        again = parts + [parts[j]]
        want_again = ref.xor_components(again).hex()
        ok, g4 = call(ctx, case, 'get_zone_master_key', K.get_zone_master_key, *again)
        ctx.count('component given once more after an earlier call with the same set')
        if not ok or g4[0].lower() != want_again or g4[1] != ref.kcv(bytes.fromhex(want_again)):
            fail(ctx, case, 'combine:component_given_twice_does_not_cancel_after_earlier_call', {'got': repr(g4), 'want': want_again})
            return
    master = case['master']
    ok, got = call(ctx, case, 'get_enc_zone_master_key', K.get_enc_zone_master_key, master, *parts)
    if not ok:
        kind, val = got
        fail(ctx, case, 'encrypt_zone_key:%s' % ('step_budget' if kind == 'steps' else 'exception:' + type(val).__name__),
             {'error': repr(val)})
        return
    enc_hex, kcv2 = got
    want_enc = refc.tdes_ecb_encrypt(bytes.fromhex(master), xor).hex()
    if enc_hex.lower() != want_enc or kcv2 != ref.kcv(xor):
        fail(ctx, case, 'encrypt_zone_key:differs_from_reference', {'got': enc_hex, 'want': want_enc, 'kcv': kcv2})
        return
    again = parts + [parts[-1]]
    ok, got = call(ctx, case, 'get_enc_zone_master_key', K.get_enc_zone_master_key, master, *again)
    want2 = refc.tdes_ecb_encrypt(bytes.fromhex(master), ref.xor_components(again)).hex()
    if not ok or got[0].lower() != want2:
        fail(ctx, case, 'encrypt_zone_key:component_given_twice_does_not_cancel_after_earlier_call', {'got': repr(got), 'want': want2})
        return
    if len(ctx.samples) < 6:
        ctx.sample({'components': parts, 'xor': want_hex, 'kcv': kcv, 'master_bytes': len(master) // 2, 'encrypted': want_enc})


def judge_kcv(ctx, case):
    K = ctx.key
    kb = bytes.fromhex(case['key'])
    ctx.case_done(['kcv', case['key']])
    for n in range(1, 17):
        ok, got = call(ctx, case, 'calculate_kcv', K.calculate_kcv, kb, n)
        want = ref.kcv_long(kb, n)
        if not ok or got != want:
            fail(ctx, case, 'kcv:wrong_value', {'length': n, 'got': repr(got), 'want': want})
            return
    ok, got = call(ctx, case, 'calculate_kcv', K.calculate_kcv, kb)
    if not ok or got != ref.kcv(kb, 6):
        fail(ctx, case, 'kcv:wrong_default', {'got': repr(got), 'want': ref.kcv(kb, 6)})


def canaries(ctx):
    ctx.canary('second scan maps A-F to 0-5', ref.pvv_from_cipher_hex('abcdef1fffffffff') == '1012')
    ctx.canary('first scan wins when four digits exist', ref.pvv_from_cipher_hex('a1b2c3d4ffffffff') == '1234')
    ctx.canary('TSP takes only four PIN digits', ref.pvv_tsp('123456', '4000001234567899', 3) == '23456789' + '312' + '3' + '1234'
               or len(ref.pvv_tsp('123456', '4000001234567899', 3)) == 16)
    ctx.canary('xor cancels', ref.xor_components(['ab' * 16, 'cd' * 16, 'cd' * 16]).hex() == 'ab' * 16)
    ctx.canary('kcv of zero key', ref.kcv(bytes(16)) == '8ca64d')


def require(m):
    reasons = []
    if m['counters'].get('thread alternations between consecutive PVV / KCV calls', 0) < 20 and not m['violations']:
        reasons.append('threaded PVV / KCV calls did not overlap')
    if set(m['classes'].get('digits supplied by the second scan', ())) != {0, 1, 2, 3, 4} and not m['violations']:
        reasons.append('second decimalisation scan not observed for every d in 0..4: %s'
                       % sorted(m['classes'].get('digits supplied by the second scan', ())))
    if set(m['classes'].get('PIN lengths', ())) != set(range(4, 13)):
        reasons.append('PIN lengths 4..12 not all driven')
    if set(m['classes'].get('key indexes', ())) != set(range(10)):
        reasons.append('key indexes 0..9 not all driven')
    if set(m['classes'].get('component sizes', ())) != {8, 16, 24} and not m['violations']:
        reasons.append('component sizes 8, 16 and 24 bytes not all driven')
    if not m['counters'].get('permutations judged'):
        reasons.append('no component permutation judged')
    return reasons
