"""C13 - PIN blocks follow ISO 9564 formats 0 and 4 and return the PIN, for 4-12 digits."""
from ..ref import cards as ref
from ..ref import crypto as refc

ID = 'C13'
LEVEL = 'exploration'
ANCHORS = ('Iso0PinBlock.to_bytes', 'Iso0PinBlock.from_bytes', 'Iso4PinBlock.to_bytes', 'Iso4PinBlock.from_bytes',
           'Iso4PinBlock.__init__', 'TdesEncryptedPinBlockMixin.encrypt', 'TdesEncryptedPinBlockMixin.decrypt',
           'AESEncryptedPinBlockMixin.encrypt', 'AESEncryptedPinBlockMixin.decrypt')
RULE = ('case = (format, class flavour, PIN, PAN, supplied fill or none, key); PIN lengths 4..12 x PAN lengths 13..19 are '
        'enumerated with seeded digits (each digit value forced at each PIN position), keys TDES 16/24 bytes and AES '
        '16/24/32 bytes. Clear block compared with an independent construction, ciphertext with from-scratch DES/AES, '
        'PIN recovered from clear and encrypted bytes. Distinct by digest of the case. Freshness: format-4 blocks built '
        'without a fill must never repeat a fill and must show every one of the 64 bit positions both set and clear.')
ASSUMPTIONS = ['vmon/ref/crypto.py (FIPS known answers + cross-check against the cryptography package at setup)',
               'vmon/ref/cards.py clear-block construction (ISO 9564-1)', 'a supplied fill of 0 is outside the quantifier',
               '"random" is observed only as never repeated and not narrow']


def prepare(ctx):
    from cardutil import pinblock
    ctx.pb = pinblock
    refc.selftest(cross_check=False)
    P = pinblock
    ctx.flavours = {
        'iso0:plain': (P.Iso0PinBlock, None),
        'iso4:plain': (P.Iso4PinBlock, None),
        'iso0:predefined_tdes': (P.Iso0TDESPinBlockWithVisaPVV, 'tdes'),
        'iso4:predefined_aes': (P.Iso4AESPinBlockWithVisaPVV, 'aes'),
        'iso0:type_built_tdes': (type('T0', (P.Iso0PinBlock, P.TdesEncryptedPinBlockMixin, P.VisaPVVPinBlockMixin), {}), 'tdes'),
        'iso4:type_built_aes': (type('T4', (P.Iso4PinBlock, P.AESEncryptedPinBlockMixin), {}), 'aes'),
        'iso4:type_built_tdes': (type('T4T', (P.Iso4PinBlock, P.TdesEncryptedPinBlockMixin), {}), 'tdes'),
    }
    ctx.fills = []


def digits(rng, n):
    return ''.join(rng.choice('0123456789') for _ in range(n))


def cases(ctx):
    reps = 20 if ctx.tier == 'quick' else 900
    i = 0
    rng = ctx.rng_global('cases')
    flv = ['iso0:plain', 'iso4:plain', 'iso0:predefined_tdes', 'iso4:predefined_aes', 'iso0:type_built_tdes',
           'iso4:type_built_aes', 'iso4:type_built_tdes']
    for rep in range(reps):
        for plen in range(4, 13):
            for panlen in range(13, 20):
                for f in flv:
                    pin = list(digits(rng, plen))
                    # force each digit value at each position over the repetitions
                    pos = (rep * 7 + panlen) % plen
                    pin[pos] = str((rep + plen + panlen) % 10)
                    pin = ''.join(pin)
                    pan = digits(rng, panlen)
                    fill = rng.choice([None, None, 1, 1 << 63, (1 << 64) - 1, rng.getrandbits(64) or 1, rng.getrandbits(20) or 1])
                    kind = 'tdes' if 'tdes' in f else 'aes' if 'aes' in f else None
                    key = None
                    if kind == 'tdes':
                        key = rng.randbytes(rng.choice([16, 24])).hex()
                    elif kind == 'aes':
                        key = rng.randbytes(rng.choice([16, 24, 32])).hex()
                    if ctx.mine(i):
                        yield {'kind': 'block', 'flavour': f, 'pin': pin, 'pan': pan, 'fill': fill, 'key': key}
                    i += 1
    if ctx.shard == 0:
        ctx.exhaustive_subspace('PIN length 4..12 x PAN length 13..19 x 7 class flavours (digits seeded)', 9 * 7 * 7)
    # freshness
    n = 2000 if ctx.tier == 'quick' else 20000
    if ctx.mine(i):
        yield {'kind': 'freshness', 'n': n}
    i += 1
    if ctx.mine(i):
        yield {'kind': 'freshness_fork', 'children': 4, 'blocks': 64}


def fail(ctx, case, mech, detail):
    ctx.violation(mech, {'case': case, 'detail': detail})


def step(ctx, case, what, fn, *a, **kw):
    kind, val = ctx.call(fn, *a, budget=50000, **kw)
    ctx.count(what + ' calls')
    if kind == 'ok':
        return True, val
    fail(ctx, case, '%s:%s' % (what, 'step_budget' if kind == 'steps' else 'exception:' + type(val).__name__),
         {'error': repr(val)})
    return False, None


def judge(ctx, case):
    if case['kind'] == 'freshness':
        return judge_freshness(ctx, case)
    if case['kind'] == 'freshness_fork':
        return judge_freshness_fork(ctx, case)
    f = case['flavour']
    cls, cipher = ctx.flavours[f]
    fmt = f[:4]
    pin, pan, fill, key = case['pin'], case['pan'], case['fill'], case['key']
    plen = len(pin)
    lenclass = 'pin_len_%02d' % plen
    ctx.seen('PIN lengths', plen)
    ctx.seen('PAN lengths', len(pan))
    ctx.case_done(['b', f, pin, pan, fill, key])
    # build
    if fmt == 'iso0':
        ok, pb = step(ctx, case, 'construct', cls, pin, card_number=pan)
    elif fill is None:
        ok, pb = step(ctx, case, 'construct', cls, pin)
    else:
        ok, pb = step(ctx, case, 'construct', cls, pin, random_value=fill)
    if not ok:
        return
    ok, clear = step(ctx, case, fmt + '.to_bytes', pb.to_bytes)
    if not ok:
        return
    if fmt == 'iso0':
        want = ref.iso0_clear(pin, pan)
    else:
        # the 64 random bits are read from the block itself (its last eight bytes), not from an attribute of the object
        if len(clear) != 16:
            fail(ctx, case, 'iso4:block_is_not_16_bytes', {'got': bytes(clear).hex()})
            return
        rnd = int.from_bytes(clear[8:], 'big')
        if fill is not None and rnd != fill:
            fail(ctx, case, 'iso4:supplied_fill_not_used', {'supplied': fill, 'in_block': rnd, 'got': bytes(clear).hex()})
            return
        want = ref.iso4_clear(pin, rnd)
        if fill is None:
            ctx.fills.append(rnd)
    if clear != want:
        where = 'length_nibble' if clear[:1] != want[:1] else 'body'
        fail(ctx, case, '%s:clear_block_differs:%s%s' % (fmt, where, ':pin_len_ge_10' if plen >= 10 else ''),
             {'got': bytes(clear).hex(), 'want': want.hex(), lenclass: True})
        return
    # rebuild from the clear bytes
    if fmt == 'iso0':
        ok, pb2 = step(ctx, case, fmt + '.from_bytes', cls.from_bytes, clear, card_number=pan)
    else:
        ok, pb2 = step(ctx, case, fmt + '.from_bytes', cls.from_bytes, clear)
    if not ok:
        return
    if pb2.pin != pin:
        fail(ctx, case, '%s:pin_not_recovered_from_clear_block%s' % (fmt, ':pin_len_ge_10' if plen >= 10 else ''),
             {'got': pb2.pin, 'want': pin})
        return
    if fmt == 'iso0':
        # neighbouring cards in the same process: one digit changed at a time (anything remembered about the first card -
        # its account digits, its mask - must not leak into the next one), and a neighbouring PIN on the same card
        for p in (-13, -12, -7, -2, -1, 0):
            if -p > len(pan):
                continue
            pan2 = pan[:len(pan) + p if p < 0 else p] + str((int(pan[p]) + 1 + plen) % 10) + (pan[len(pan) + p + 1:] if p < 0 else pan[1:])
            if pan2 == pan or len(pan2) != len(pan):
                continue
            want2 = ref.iso0_clear(pin, pan2)
            ok, pbn = step(ctx, case, 'construct', cls, pin, card_number=pan2)
            if not ok:
                return
            ok, clear2 = step(ctx, case, 'iso0.to_bytes', pbn.to_bytes)
            if not ok:
                return
            ctx.count('neighbouring card numbers judged')
            if clear2 != want2:
                fail(ctx, case, 'iso0:clear_block_differs:after_a_neighbouring_card', {'pan2': pan2, 'changed_position': p,
                                                                                      'got': bytes(clear2).hex(), 'want': want2.hex()})
                return
            ok, pbr = step(ctx, case, 'iso0.from_bytes', cls.from_bytes, want2, card_number=pan2)
            if not ok:
                return
            if pbr.pin != pin:
                fail(ctx, case, 'iso0:pin_not_recovered_from_clear_block:after_a_neighbouring_card', {'pan2': pan2, 'changed_position': p,
                                                                                                     'got': pbr.pin, 'want': pin})
                return
        # the card number is a plain attribute of the block (the PVV mix-in reads it at call time): point the block that was
        # already used at another card and build again
        pan3 = pan[:-6] + str((int(pan[-6]) + 7) % 10) + pan[-5:]
        try:
            pb.card_number = pan3
            settable = True
        except AttributeError:
            settable = False
        if settable:
            ok, clear3 = step(ctx, case, 'iso0.to_bytes', pb.to_bytes)
            if not ok:
                return
            ctx.count('blocks rebuilt after the card number of a used object was replaced')
            if clear3 != ref.iso0_clear(pin, pan3):
                fail(ctx, case, 'iso0:clear_block_differs:after_card_number_replaced_on_the_object',
                     {'pan3': pan3, 'got': bytes(clear3).hex(), 'want': ref.iso0_clear(pin, pan3).hex()})
                return
            pb.card_number = pan
        pin2 = pin[:-1] + str((int(pin[-1]) + 3) % 10)
        ok, pbn = step(ctx, case, 'construct', cls, pin2, card_number=pan)
        if ok:
            ok, clear2 = step(ctx, case, 'iso0.to_bytes', pbn.to_bytes)
        if not ok:
            return
        if clear2 != ref.iso0_clear(pin2, pan):
            fail(ctx, case, 'iso0:clear_block_differs:after_a_neighbouring_pin', {'pin2': pin2, 'got': bytes(clear2).hex()})
            return
    if not cipher:
        if len(ctx.samples) < 3:
            ctx.sample({'flavour': f, 'pin': pin, 'pan': pan, 'clear_block': want.hex()})
        return
    kb = bytes.fromhex(key)
    ok, enc = step(ctx, case, cipher + '.to_enc_bytes', pb.to_enc_bytes, key)
    if not ok:
        return
    want_enc = refc.tdes_ecb_encrypt(kb, want) if cipher == 'tdes' else refc.aes_ecb_encrypt(kb, want)
    ctx.seen('key lengths (%s)' % cipher, len(kb))
    if enc != want_enc:
        fail(ctx, case, '%s:ciphertext_differs_from_reference' % cipher, {'got': bytes(enc).hex(), 'want': want_enc.hex()})
        return
    if fmt == 'iso0':
        ok, pb3 = step(ctx, case, cipher + '.from_enc_bytes', cls.from_enc_bytes, enc, key=key, card_number=pan)
    else:
        ok, pb3 = step(ctx, case, cipher + '.from_enc_bytes', cls.from_enc_bytes, enc, key=key)
    if not ok:
        return
    if pb3.pin != pin:
        fail(ctx, case, '%s:pin_not_recovered_from_encrypted_block' % cipher, {'got': pb3.pin, 'want': pin})
        return
    if len(ctx.samples) < 6:
        ctx.sample({'flavour': f, 'pin': pin, 'pan': pan, 'key_bytes': len(kb), 'clear_block': want.hex(), 'encrypted': want_enc.hex()})


def judge_freshness(ctx, case):
    P = ctx.pb
    seen = set()
    ones = 0
    zeros = 0
    mask = (1 << 64) - 1
    dup = 0
    for k in range(case['n']):
        kind, pb = ctx.call(P.Iso4PinBlock, '%04d' % (k % 10000), budget=20000)
        if kind != 'ok':
            fail(ctx, case, 'freshness:construct_failed', {'error': repr(pb)})
            return
        rv = int.from_bytes(pb.to_bytes()[8:], 'big')
        if rv in seen:
            dup += 1
        seen.add(rv)
        ones |= rv
        zeros |= (~rv) & mask
    ctx.count('format-4 blocks built without a fill', case['n'])
    ctx.count('distinct fills among them', len(seen))
    ctx.case_done(['fresh', case['n']])
    if dup:
        fail(ctx, case, 'freshness:fill_repeated', {'blocks': case['n'], 'distinct': len(seen)})
    if ones != mask or zeros != mask:
        fail(ctx, case, 'freshness:fill_is_narrow', {'bits_ever_set': '%016x' % ones, 'bits_ever_clear': '%016x' % zeros})


def judge_freshness_fork(ctx, case):
    """
    "fresh per block" also across processes: a block is built in this process, then forked children build blocks without a
    supplied fill.  Children of one parent share its memory image, so any pre-drawn or cached randomness is replayed.
    """
    import json
    import os
    P = ctx.pb
    P.Iso4PinBlock('1234')                       # something drawn before the fork
    fills = []
    for c in range(case['children']):
        r, w = os.pipe()
        pid = os.fork()
        if pid == 0:
            try:
                os.close(r)
                mine = [int.from_bytes(P.Iso4PinBlock('%04d' % k).to_bytes()[8:], 'big') for k in range(case['blocks'])]
                os.write(w, json.dumps(mine).encode())
            finally:
                os._exit(0)
        os.close(w)
        data = b''
        while True:
            chunk = os.read(r, 65536)
            if not chunk:
                break
            data += chunk
        os.close(r)
        os.waitpid(pid, 0)
        try:
            fills.append(json.loads(data.decode()))
        except ValueError:
            ctx.inconclusive_because('forked child did not report its fills')
            return
    ctx.case_done(['fork', case['children'], case['blocks']])
    ctx.count('format-4 blocks built in forked children', sum(len(f) for f in fills))
    allf = [x for f in fills for x in f]
    if len(set(allf)) != len(allf):
        same_pos = sum(1 for k in range(case['blocks']) if len({f[k] for f in fills}) < len(fills))
        fail(ctx, case, 'freshness:fill_repeated_across_forked_processes',
             {'blocks': len(allf), 'distinct': len(set(allf)), 'positions_where_children_agree': same_pos})


def canaries(ctx):
    good = ref.iso0_clear('1234567890', '4000001234567899')
    ctx.canary('length nibble is hex for 10 digits', good.hex()[:2] == '0a')
    decimal_len = bytes.fromhex(('0' + '10' + '1234567890' + 'f' * 16)[:16])
    ctx.canary('decimal length differs', decimal_len != bytes.fromhex('0a1234567890ffff'))
    ctx.canary('iso4 layout', ref.iso4_clear('123456', 1).hex() == '46123456aaaaaaaa0000000000000001')
    ctx.canary('reference ciphers alive', refc.tdes_ecb_encrypt(bytes(16), bytes(8)).hex() == '8ca64de9c1b123a7')


def require(m):
    reasons = []
    if not m['counters'].get('neighbouring card numbers judged') and not m['violations']:
        reasons.append('no neighbouring card numbers judged')
    if set(m['classes'].get('PIN lengths', ())) != set(range(4, 13)):
        reasons.append('not every PIN length 4..12 was driven')
    if set(m['classes'].get('PAN lengths', ())) != set(range(13, 20)):
        reasons.append('not every PAN length 13..19 was driven')
    if set(m['classes'].get('key lengths (tdes)', ())) != {16, 24} and not m['violations']:
        reasons.append('TDES key lengths 16 and 24 not both driven')
    if set(m['classes'].get('key lengths (aes)', ())) != {16, 24, 32} and not m['violations']:
        reasons.append('AES key lengths not all driven')
    if not m['counters'].get('format-4 blocks built in forked children'):
        reasons.append('freshness across fork never observed')
    if not m['counters'].get('format-4 blocks built without a fill'):
        reasons.append('freshness never observed')
    return reasons
