"""C10 - a bad record is reported with its own record number and raw bytes."""
import contextlib
import copy
import datetime
import decimal
import io
import itertools
import json
import os
import re
import shutil
import tempfile

from .. import gen, msgwork, sentinel
from ..core import hx
from ..ref import blocking as refb
from ..ref import codec as ref

ID = 'C10'
LEVEL = 'fault_enumeration'
ANCHORS = ('VbsReader.__next__', 'IpmReader.__next__', 'print_exception_details', 'cli_run')
RULE = ('case = (n records, position k of the faulty record, fault kind, format, codec); every k in 1..n is enumerated (files of more than 64 records: the ends, the middle and every eighth position) for '
        'every n and kind. The reader must deliver records 1..k-1 (equal to the strict reference decode), then raise '
        'MciIpmDataError with record_number == k and binary_context_data == length prefix + raw bytes of record k (for '
        'framing faults: a byte string that starts with record k\'s prefix and is a prefix of the payload stream from record '
        'k on). The extraction tool run on the same file must print "Error detected in record k". Distinct by construction.')
ASSUMPTIONS = ['vmon/ref/codec.py, vmon/ref/blocking.py build the files and the expected dicts', 'tool run in-process with out_encoding utf8']
KINDS = ('truncated_record', 'oversized_length', 'undecodable_mti', 'unknown_bitmap_bit', 'bad_field_length', 'bad_typed_value',
         'bad_pds_content', 'bad_icc_content', 'trailing_bytes', 'bad_decimal_value', 'short_message', 'element_removed_from_used_config',
         'unknown_bit_above_all_data', 'data_ends_at_field_boundary')
# faults built from the message rather than from its wire image
FROM_MESSAGE = ('unknown_bit_above_all_data', 'data_ends_at_field_boundary')
ENCS = ('latin_1', 'cp500', 'ascii')
FRAMING = ('truncated_record', 'oversized_length')
# how the caller walks the reader: the statement is about iteration, however it is spelled
CONSUME = ('for', 'for', 'next_only', 'list', 'next_then_for', 'next2_then_list', 'islice_then_for', 'iter_twice')
CUTS = ('anywhere', 'after_prefix', 'on_first_fill_byte', 'after_blanks', 'anywhere', 'on_second_fill_byte', 'after_blanks')
# over-long length values, including ones made of the 1014 fill byte and of ASCII/EBCDIC spaces and zeros
OVERSIZED = (6001, 70000, 0x7fffffff, 0xfffffff0, 0x40404040, 0x00404040, 0x40400000, 0x20202020, 0xf0f0f0f0, 0x30303030, 0x00004040)


def prepare(ctx):
    ctx.online_wanted = ('C03', 'C04', 'C05', 'C09')      # shadow-model monitors watch the file layer while this workload runs
    from cardutil import iso8583, mciipm
    from cardutil.config import config
    from cardutil.cli import mci_ipm_to_csv
    ctx.iso, ctx.mciipm, ctx.tool = iso8583, mciipm, mci_ipm_to_csv
    msgwork.set_packaged(config['bit_config'])
    ctx.tmpdir = None


def finish(ctx):
    if ctx.tmpdir:
        shutil.rmtree(ctx.tmpdir, ignore_errors=True)


def good_message(rng, enc, i):
    m = {'MTI': '1240', 'DE2': ''.join(rng.choice('0123456789') for _ in range(16)), 'DE3': '%06d' % i,
         'DE4': rng.randint(0, 10 ** 10), 'DE12': datetime.datetime(2024, 1 + i % 12, 1 + i % 28, 10, 11, 12),
         'DE48': '0023003ABC0148%03d%s' % (8 + i % 5, 'Z' * (8 + i % 5)),
         'DE55': bytes.fromhex('9f2608' + '%016x' % rng.getrandbits(64) + '9f270180'), 'DE71': i + 1}
    if i % 3 == 0:
        m['DE72'] = gen.text(rng, enc, rng.randint(200, 900), 'alnum')
    if i % 2 == 1:
        m['DE54'] = 'PAY  ROLL@@' + gen.text(rng, enc, rng.randint(5, 40), 'alnum') + '  @@  ' + gen.text(rng, enc, 7, 'alnum')
    if i % 4 == 1:
        # a record of several thousand bytes: its raw bytes are the context of the error, all of them
        for b in (54, 72, 111, 127):
            m['DE%d' % b] = gen.text(rng, enc, rng.randint(700, 999), 'alnum')
    return m


def faulty_wire(kind, wire, enc):
    """Turn a good wire image (DE2, DE3, DE4, DE12, DE48, DE55, DE71[, DE72]) into one with the named message-level fault."""
    hdr = 20
    if kind == 'undecodable_mti':
        if enc == 'ascii':
            return b'\xb1\xc2\xf3\xf4' + wire[4:]      # four bytes the codec cannot decode at all
        return 'AB12'.encode(enc) + wire[4:]
    if kind == 'unknown_bitmap_bit':
        bm = bytearray(wire[4:20])
        bm[0] |= 0x02          # bit 7: not configured
        return wire[:4] + bytes(bm) + wire[20:]
    if kind == 'bad_field_length':
        return wire[:hdr] + 'x6'.encode(enc) + wire[hdr + 2:]
    if kind == 'bad_typed_value':
        off = hdr + 2 + 16 + 6          # DE4 starts after DE2 (LL+16) and DE3 (6)
        return wire[:off] + 'ABCDEFGHIJKL'.encode(enc) + wire[off + 12:]
    if kind == 'element_removed_from_used_config':
        return wire          # nothing wrong with the bytes: the configuration changes under them (see judge)
    if kind == 'short_message':
        # a record that ends inside its own header: MTI alone, or MTI and a few bitmap bytes that flag nothing
        variants = (wire[:4], wire[:4] + b'\x80\x00', wire[:4] + b'\x00' * 8, wire[:4] + b'\x80' + b'\x00' * 14, wire[:2],
                    wire[:4] + b'\x00', wire[:4] + b'\x80' + b'\x00' * 7)
        return variants[len(wire) % len(variants)]
    if kind == 'bad_decimal_value':
        off = hdr + 2 + 16 + 6 + 12     # DE9 (decimal under the caller's configuration) follows DE4
        return wire[:off] + 'ABCD.EFG'.encode(enc) + wire[off + 8:]
    if kind == 'bad_pds_content':
        off = hdr + 2 + 16 + 6 + 12 + 12 + 3 + 4    # DE48 body + tag -> sub-length of the first PDS entry
        return wire[:off] + 'abc'.encode(enc) + wire[off + 3:]
    if kind == 'bad_icc_content':
        # drop the last two bytes of the ICC value and shorten its prefix: the last TLV then has a tag but no length/value
        i = wire.index(bytes.fromhex('9f2608'))
        n = 15
        pre = ('%03d' % (n - 3)).encode(enc)
        return wire[:i - 3] + pre + wire[i:i + n - 3] + wire[i + n:]
    if kind == 'trailing_bytes':
        return wire + b' '
    raise ValueError(kind)


def _set_bit(wire, bit):
    bm = bytearray(wire[4:20])
    bm[(bit - 1) // 8] |= 0x80 >> ((bit - 1) % 8)
    if bit > 64:
        bm[0] |= 0x80
    return wire[:4] + bytes(bm) + wire[20:]


def fault_from_message(kind, msg, cfg, enc):
    """
    Faults that sit AFTER the last byte of data.
      unknown_bit_above_all_data : the bitmap flags an element without configuration that lies above every element present
      data_ends_at_field_boundary: the bitmap flags a configured element, but the record ends exactly where it would start
    """
    msg = dict(msg)
    if kind == 'unknown_bit_above_all_data':
        u = max(b for b in range(2, 128) if str(b) not in cfg)
        for key in [key for key in msg if key.startswith('DE') and int(key[2:]) > u]:
            del msg[key]
        return _set_bit(ref.encode(msg, cfg, enc), u)
    last = max(int(key[2:]) for key in msg if key.startswith('DE'))
    del msg['DE%d' % last]
    return _set_bit(ref.encode(msg, cfg, enc), last)


def cases(ctx):
    max_n = 10 if ctx.tier == 'quick' else 40
    ns = list(range(1, max_n + 1)) if ctx.tier == 'quick' else list(range(1, 41)) + [64, 100, 257]
    i = 0
    total = 0
    for n in ns:
        # every position for files of up to 64 records; beyond that the ends, the middle and every eighth position
        ks = range(1, n + 1) if n <= 64 else sorted(set([1, 2, 3, n // 2, n - 2, n - 1, n] + list(range(8, n, 8))))
        for k in ks:
            for kind in KINDS:
                for fmt in ('vbs', '1014'):
                    for enc in ENCS:
                        i += 1
                        total += 1
                        if ctx.mine(i):
                            yield {'n': n, 'k': k, 'fault': kind, 'fmt': fmt, 'enc': enc,
                                   'consume': CONSUME[(n + k + len(kind) + i) % len(CONSUME)]}
    if ctx.shard == 0:
        ctx.exhaustive_subspace('n in %s x every k (sampled beyond 64 records) x %d fault kinds x {vbs,1014} x {latin_1,cp500,ascii}' % (ns, len(KINDS)), total)


def judge(ctx, case):
    m = ctx.mciipm
    n, k, kind, enc = case['n'], case['k'], case['fault'], case['enc']
    blocked = case['fmt'] == '1014'
    cfg = msgwork.cfg_of('packaged')
    custom = kind in ('bad_decimal_value', 'element_removed_from_used_config')
    rng = ctx.rng_global('file', n, k, kind, enc)
    if kind == 'element_removed_from_used_config':
        # record k alone carries DE10; the whole file is first read under a caller-supplied configuration that knows DE10,
        # then DE10 is deleted from that same configuration object: record k now uses an element without configuration
        cfg = copy.deepcopy(cfg)
        msgs = [good_message(rng, enc, i) for i in range(n)]
        msgs[k - 1]['DE10'] = 12345678
        wires = [ref.encode(x, cfg, enc) for x in msgs]
        ctx.count('files read under a caller-supplied configuration')
    elif custom:
        # a caller-supplied configuration with a decimal element (the packaged one has none): same rules
        cfg = copy.deepcopy(cfg)
        cfg['9'] = dict(cfg['9'], field_python_type='decimal')
        msgs = [dict(good_message(rng, enc, i), DE9=decimal.Decimal('%d.%03d' % (i % 97, i * 7 % 1000))) for i in range(n)]
        wires = [ref.encode(x, cfg, enc) for x in msgs]
        ctx.count('files read under a caller-supplied configuration')
    else:
        msgs = [good_message(rng, enc, i) for i in range(n)]
        wires = [ref.encode(x, cfg, enc) for x in msgs]
    expect = [ref.decode_strict(w, cfg, enc) for w in wires[:k - 1]]
    ctx.case_done(nontrivial=True, enumerated=True)
    ctx.seen('fault kinds', kind)
    ctx.seen('codecs', enc)
    ctx.seen('fault positions k', k)
    if kind in FRAMING:
        head = refb.vbs(wires[:k - 1])[:-4]
        if kind == 'truncated_record':
            # where the file ends inside record k: anywhere; straight after the complete length prefix; (blocked) on the
            # first or second fill byte of a block; straight after two x'40' data bytes (EBCDIC blanks, '@@' in Latin-1)
            wk = wires[k - 1]
            mode = CUTS[(n * 5 + k * 3 + (1 if blocked else 0) + (0 if enc == 'latin_1' else 2)) % len(CUTS)]
            cut = rng.randint(1, len(wk) - 1)
            if mode == 'after_prefix':
                cut = 0
            elif mode == 'after_blanks':
                at = [j + 2 for j in range(1, len(wk) - 3) if wk[j:j + 2] == b'\x40\x40']
                if at:
                    cut = rng.choice(at)
                    ctx.count('truncations straight after two fill-valued data bytes')
            elif mode in ('on_first_fill_byte', 'on_second_fill_byte') and blocked:
                # stream offsets p (counted from the start of the file) at which a payload block is exactly full
                lo, hi = len(head) + 4, len(head) + 4 + len(wk) - 1
                edges = [p for p in range(lo, hi + 1) if p % 1012 == 0]
                if edges:
                    cut = rng.choice(edges) - len(head) - 4
                    ctx.count('truncations of a blocked file inside the two fill bytes of a block')
                else:
                    mode = 'anywhere'
            ctx.seen('truncation points', mode)
            rec_k = len(wk).to_bytes(4, 'big') + wk[:cut]
            stream = head + rec_k
            want_ctx_exact = None
        else:
            big = OVERSIZED[(n * 7 + k * 3 + (1 if blocked else 0) + (0 if enc == 'latin_1' else 5)) % len(OVERSIZED)]
            ctx.seen('oversized length values', '%08x' % big)
            rec_k = big.to_bytes(4, 'big') + wires[k - 1]
            stream = head + rec_k + refb.vbs(wires[k:])
            want_ctx_exact = None
    else:
        bad = fault_from_message(kind, msgs[k - 1], cfg, enc) if kind in FROM_MESSAGE else faulty_wire(kind, wires[k - 1], enc)
        recs = wires[:k - 1] + [bad] + wires[k:]
        stream = refb.vbs(recs)
        head = refb.vbs(wires[:k - 1])[:-4]
        rec_k = len(bad).to_bytes(4, 'big') + bad
        want_ctx_exact = rec_k
    data = refb.block(stream) if blocked else stream
    if kind == 'truncated_record' and blocked:
        # a blocked file cut short has no fill after the cut: block the whole stream, then cut the file itself
        full = refb.block(refb.vbs(wires))
        p = len(stream)
        data = full[:p + 2 * (p // 1012)]
        if p % 1012 == 0 and mode in ('on_first_fill_byte', 'on_second_fill_byte'):
            # the payload block is full: the cut above falls after both fill bytes; move it onto them
            data = full[:p + 2 * (p // 1012) - (2 if mode == 'on_first_fill_byte' else 1)]
    got = []
    rdr = []
    if kind == 'element_removed_from_used_config':
        ctx.call(lambda: list(m.IpmReader(io.BytesIO(data), encoding=enc, blocked=blocked, iso_config=cfg)),
                 budget=sentinel.budget_for(len(data)) + 200000)
        del cfg['10']
        ctx.count('files re-read after an element was deleted from the used configuration object')

    consume = case.get('consume', 'for')
    ctx.seen('consumption styles', consume)

    def body():
        r = m.IpmReader(io.BytesIO(data), encoding=enc, blocked=blocked, **({'iso_config': cfg} if custom else {}))
        rdr.append(r)
        if consume == 'next_only':
            while True:
                try:
                    got.append(next(r))
                except StopIteration:
                    return
        if consume == 'list':
            for d in iter(lambda: next(r), None):      # noqa - drains through next(); errors propagate
                got.append(d)
            return
        if consume in ('next_then_for', 'next2_then_list', 'islice_then_for'):
            head = 2 if consume == 'next2_then_list' else 1
            if consume == 'islice_then_for':
                for d in itertools.islice(r, head):
                    got.append(d)
            else:
                for _ in range(head):
                    try:
                        got.append(next(r))
                    except StopIteration:
                        return
            if consume == 'next2_then_list':
                rest = []
                try:
                    for d in r:
                        rest.append(d)
                finally:
                    got.extend(rest)
                return
        if consume == 'iter_twice':
            it = iter(r)
            try:
                got.append(next(it))
            except StopIteration:
                return
            r2 = iter(r)
            for d in r2:
                got.append(d)
            return
        for d in r:
            got.append(d)
    kind2, val = ctx.call(body, budget=sentinel.budget_for(len(data)) + 200000)
    ctx.count('IpmReader runs')
    detail = {'case': case, 'file_len': len(data), 'delivered': len(got)}
    if kind2 == 'steps':
        ctx.violation('reader:step_budget', detail)
        return
    if kind2 == 'ok':
        ctx.violation('no_error_raised:' + kind, detail)
        return
    if not isinstance(val, m.MciIpmDataError):
        ctx.violation('wrong_exception:%s:%s' % (type(val).__name__, kind), dict(detail, error=repr(val)[:200]))
        return
    if got != expect:
        ctx.violation('records_before_the_fault_wrong:' + ('count' if len(got) != len(expect) else 'content'),
                      dict(detail, expected=len(expect)))
        return
    level = 'framing' if kind in FRAMING else 'message'
    if val.record_number != k:
        off = val.record_number - k if isinstance(val.record_number, int) else 'none'
        ctx.violation('record_number_off_by_%s:%s_level' % (off, level), dict(detail, reported=val.record_number, fault_kind=kind))
        return
    bc = val.binary_context_data
    if bc and len(bc) > 2048:
        ctx.count('faulty records whose context is longer than 2 KB')
    payload_from_k = (refb.payload_stream(data) if blocked else data)[len(head):]
    if want_ctx_exact is not None:
        if bc != want_ctx_exact:
            ctx.violation('context_is_not_the_faulty_record:message_level',
                          dict(detail, got=hx(bc or b'')[:80], want=hx(want_ctx_exact)[:80], got_len=len(bc or b''),
                               want_len=len(want_ctx_exact)))
            return
    else:
        if kind == 'truncated_record' and bc != payload_from_k:
            # "the bytes that could be read of it": every data byte of record k that survives in the file, and only those
            ctx.violation('context_is_not_the_bytes_that_could_be_read:framing_level',
                          dict(detail, got_len=len(bc or b''), want_len=len(payload_from_k), got_tail=hx((bc or b'')[-8:]),
                               want_tail=hx(payload_from_k[-8:])))
            return
        if not bc or bc[:4] != rec_k[:4] or payload_from_k[:len(bc)] != bc:
            ctx.violation('context_is_not_the_faulty_record:framing_level',
                          dict(detail, got=hx(bc or b'')[:80], want_prefix=hx(rec_k[:4])))
            return
    # operator report
    if not ctx.tmpdir:
        ctx.tmpdir = tempfile.mkdtemp(prefix='vmon-c10-')
    path = os.path.join(ctx.tmpdir, 'in.ipm')
    with open(path, 'wb') as f:
        f.write(data)
    sink = io.StringIO()
    config_file = None
    if custom:
        from cardutil.config import config as packaged
        config_file = os.path.join(ctx.tmpdir, 'cardutil.json')
        with open(config_file, 'w') as f:
            json.dump(dict(packaged, bit_config=cfg), f)

    def tool():
        with contextlib.redirect_stdout(sink):
            return ctx.tool.cli_run(in_filename=path, out_filename=os.path.join(ctx.tmpdir, 'o.csv'), in_encoding=enc,
                                    out_encoding='utf8', no1014blocking=not blocked, config_file=config_file, debug=False)
    k3, rv = ctx.call(tool, budget=sentinel.budget_for(len(data)) * 3 + 400000)
    ctx.count('tool runs')
    text = sink.getvalue()
    mt = re.search(r'Error detected in record (\d+)', text)
    if k3 != 'ok':
        ctx.violation('tool:%s' % ('step_budget' if k3 == 'steps' else 'traceback:' + type(rv).__name__), dict(detail, error=repr(rv)[:200]))
    elif not mt or int(mt.group(1)) != k:
        ctx.violation('tool_points_at_wrong_record:%s_level' % level, dict(detail, printed=mt.group(0) if mt else text[:200]))
    elif len(ctx.samples) < 5 and k > 1:
        ctx.sample({'case': case, 'reported_record': val.record_number, 'context_len': len(bc), 'tool_line': mt.group(0)})


def canaries(ctx):
    cfg = msgwork.cfg_of('packaged')
    rng = ctx.rng_global('canary')
    w = ref.encode(good_message(rng, 'latin_1', 0), cfg, 'latin_1')
    for kind in KINDS:
        if kind in FRAMING or kind == 'element_removed_from_used_config':
            continue            # (the latter changes the configuration, not the bytes)
        bad = fault_from_message(kind, good_message(ctx.rng_global('canary'), 'latin_1', 0), cfg, 'latin_1') if kind in FROM_MESSAGE \
            else faulty_wire(kind, w, 'latin_1')
        try:
            ref.decode_strict(bad, cfg, 'latin_1')
            rejected = False
        except ref.Reject:
            rejected = True
        ctx.canary('fault really is a fault: ' + kind, rejected)
    ctx.canary('good message decodes', ref.decode_strict(w, cfg, 'latin_1')['DE71'] == 1)
    try:
        b'\xb1\xc2\xf3\xf4'.decode('ascii')
        undec = False
    except UnicodeDecodeError:
        undec = True
    ctx.canary('the ascii MTI fault cannot be decoded', undec)
    u = max(b for b in range(2, 128) if str(b) not in cfg)
    ctx.canary('an unconfigured element exists above the elements of the ordinary records', u > 72)


def require(m):
    reasons = []
    if set(m['classes'].get('fault kinds', ())) != set(KINDS):
        reasons.append('fault kinds not all driven')
    if set(m['classes'].get('codecs', ())) != set(ENCS):
        reasons.append('codecs not all driven')
    if set(m['classes'].get('consumption styles', ())) != set(CONSUME):
        reasons.append('consumption styles not all driven')
    if '40404040' not in set(m['classes'].get('oversized length values', ())):
        reasons.append('fill-byte length value never driven')
    if not {1, 2, 3} <= set(m['classes'].get('fault positions k', ())):
        reasons.append('fault positions beyond the first record not driven')
    for need in ('truncations straight after two fill-valued data bytes', 'truncations of a blocked file inside the two fill bytes of a block'):
        if not m['counters'].get(need) and not m['violations']:
            reasons.append('never driven: ' + need)
    if 'after_prefix' not in m['classes'].get('truncation points', ()) and not m['violations']:
        reasons.append('no file ending straight after a complete length prefix')
    if not m['counters'].get('faulty records whose context is longer than 2 KB') and not m['violations']:
        reasons.append('no faulty record longer than 2 KB')
    if not m['counters'].get('tool runs') and not m['violations']:
        reasons.append('tool never run')
    return reasons
