"""C11 - closing a writer finalises the file exactly once, however close is reached."""
import io
import itertools
import os
import shutil
import tempfile

from ..ref import blocking as ref
from .c03 import content
from .c09 import ipm_messages

ID = 'C11'
LEVEL = 'exploration'
ANCHORS = ('VbsWriter.close', 'VbsWriter.__exit__', 'Block1014.seek', 'Block1014.finalise')
RULE = ('case = (writer class, format, file kind, record set, finalisation history f1..fm with fi in {close(), '
        'context-manager exit, context-manager exit through an exception}); all histories up to the bound are enumerated; exits are real nested with-blocks. The file '
        'after the whole history must equal the file after the first finalisation and read back (real reader and '
        'reference reader) as exactly the records written. Distinct by construction. Non-trivial: every history.')
ASSUMPTIONS = ['vmon/ref/blocking.py', 'whether a repeated finalisation is ignored or refused with an exception is not judged; '
               'only the file is', 'io.BytesIO and ordinary files opened "wb"']
RECORD_SETS = ('none', 'one_short', 'three', 'p1008', 'p1012', 'p2024', 'mixed20')


def prepare(ctx):
    from cardutil import mciipm, iso8583
    ctx.mciipm, ctx.iso8583 = mciipm, iso8583
    ctx.tmpdir = None


def finish(ctx):
    if ctx.tmpdir:
        shutil.rmtree(ctx.tmpdir, ignore_errors=True)


def histories(maxlen, alphabet=('close', 'exit', 'exit_exc')):
    """
    exit = leaving the with-block normally, exit_exc = leaving it through an Exception raised inside the block,
    exit_base = leaving it through a BaseException that is not an Exception (SystemExit, KeyboardInterrupt, GeneratorExit).
    """
    for n in range(1, maxlen + 1):
        for h in itertools.product(alphabet, repeat=n):
            yield list(h)


def cases(ctx):
    maxlen = 4 if ctx.tier == 'quick' else 5
    i = 0
    n = 0
    hs = list(histories(maxlen))
    hs += [h for h in histories(3 if ctx.tier == 'quick' else 4, ('close', 'exit', 'exit_exc', 'exit_base')) if 'exit_base' in h]
    if ctx.tier != 'quick':
        hs += [h for h in histories(6, ('close', 'exit')) if len(h) == 6]
    for h in hs:
        # two ways of turning a history into code: every with-block entered before the first finalisation (nested), or
        # each exit its own with-block entered when its turn comes (sequential: 'w.close(); with w: pass')
        for shape in ('nested', 'sequential'):
            if shape == 'sequential' and not any(t.startswith('exit') for t in h):
                continue
            for writer in ('VbsWriter', 'IpmWriter'):
                for fmt in ('vbs', '1014'):
                    for fk in ('bytesio', 'realfile'):
                        for rs in (RECORD_SETS if shape == 'nested' else ('none', 'three', 'p1012', 'mixed20')):
                            if ctx.mine(i):
                                yield {'history': h, 'writer': writer, 'fmt': fmt, 'file': fk, 'records': rs, 'shape': shape}
                            i += 1
                            n += 1
    # hundreds of other writers finalised between the first and the second finalisation of the observed one
    for h in histories(3):
        if len(h) < 2:
            continue
        for shape in ('nested', 'sequential'):
            if shape == 'sequential' and not any(t.startswith('exit') for t in h):
                continue
            for writer in ('VbsWriter', 'IpmWriter'):
                for fmt in ('vbs', '1014'):
                    if ctx.mine(i):
                        yield {'history': h, 'writer': writer, 'fmt': fmt, 'file': 'bytesio', 'records': 'three', 'shape': shape,
                               'others': 150 if (i % 2) else 400}
                    i += 1
                    n += 1
    if ctx.shard == 0:
        ctx.exhaustive_subspace('all finalisation histories of length 1..%d x writers x formats x file kinds x record sets'
                                % maxlen, n)


def raw_records(rs):
    if rs == 'none':
        return []
    if rs == 'one_short':
        return [content('coded', 23, 1)]
    if rs == 'three':
        return [content('coded', 5, 1), content('zeros', 40, 2), content('fill', 300, 3)]
    if rs in ('p1008', 'p1012', 'p2024'):
        # one record whose prefix+data(+terminator) fill the payload exactly to the named size
        return [content('coded', int(rs[1:]) - 8, 4)]
    return [content(('coded', 'zeros', 'fill', 'random')[i % 4], (i * 131) % 700 + 1, i) for i in range(20)]


def ipm_records(ctx, rs):
    n = {'none': 0, 'one_short': 1, 'three': 3, 'p1008': 2, 'p1012': 4, 'p2024': 5, 'mixed20': 20}[rs]
    return ipm_messages(ctx, n, salt=len(rs))


class Driver:
    """Plays one history on one writer; records what every finalisation did to the file."""

    def __init__(self, ctx, case):
        self.ctx = ctx
        self.case = case
        self.others_done = False
        self.events = []         # (token, exception type or None)
        self.snapshots = []      # file bytes after each finalisation
        m = ctx.mciipm
        blocked = case['fmt'] == '1014'
        if case['file'] == 'realfile':
            if not ctx.tmpdir:
                ctx.tmpdir = tempfile.mkdtemp(prefix='vmon-c11-')
            self.path = os.path.join(ctx.tmpdir, 'out.bin')
            self.f = open(self.path, 'wb')
        else:
            self.path = None
            self.f = io.BytesIO()
        if case['writer'] == 'IpmWriter':
            self.w = m.IpmWriter(self.f, blocked=blocked)
            self.items = [dict(d) for d in ipm_records(ctx, case['records'])]
        else:
            self.w = m.VbsWriter(self.f, blocked=blocked)
            self.items = raw_records(case['records'])

    def others(self):
        """
        Between this writer's first finalisation and the next one, other writers come and go: whatever remembers that THIS
        writer is finalised must not be a bounded or shared memory that other writers push it out of.
        """
        n = self.case.get('others', 0)
        if not n or self.others_done:
            return
        self.others_done = True
        m = self.ctx.mciipm
        for j in range(n):
            sink = io.BytesIO()
            if j % 3 == 2:
                w = m.IpmWriter(sink, blocked=bool(j % 2))
                w.write({'MTI': '1240', 'DE2': '4' * 16})
            else:
                w = m.VbsWriter(sink, blocked=bool(j % 2))
                w.write(b'other writer %d' % j)
            if j % 5:
                w.close()
            else:
                with w:
                    pass
        self.ctx.count('other writers finalised between two finalisations of the observed one', n)

    def snapshot(self):
        if self.path:
            self.f.flush()
            with open(self.path, 'rb') as g:
                return g.read()
        return self.f.getvalue()

    def do_close(self):
        try:
            self.w.close()
            self.events.append(('close', None))
        except Exception as ex:  # noqa - recorded, judged only for the first finalisation
            self.events.append(('close', type(ex).__name__))
        self.snapshots.append(self.snapshot())
        self.others()

    def nest(self, tokens, pos, depth):
        try:
            with self.w:
                if depth > 1:
                    pos = self.nest(tokens, pos, depth - 1)
                else:
                    for item in self.items:
                        self.w.write(item)
                while tokens[pos] == 'close':
                    self.do_close()
                    pos += 1
                if tokens[pos] == 'exit_exc':
                    raise _Leave()
                if tokens[pos] == 'exit_base':
                    raise _LeaveBase(0)
            self.events.append(('exit', None))
        except _Leave:
            self.events.append(('exit_exc', None))
        except _LeaveBase:
            self.events.append(('exit_base', None))
        except Exception as ex:  # noqa
            self.events.append((tokens[pos] if pos < len(tokens) else 'exit', type(ex).__name__))
        self.snapshots.append(self.snapshot())
        self.others()
        return pos + 1

    def play_sequential(self):
        """Each exit token is a with-block of its own, entered when its turn comes; the records are written first thing."""
        tokens = list(self.case['history'])
        written = False
        for tok in tokens:
            if tok == 'close':
                if not written:
                    for item in self.items:
                        self.w.write(item)
                    written = True
                self.do_close()
                continue
            try:
                with self.w:
                    if not written:
                        for item in self.items:
                            self.w.write(item)
                        written = True
                    if tok == 'exit_exc':
                        raise _Leave()
                    if tok == 'exit_base':
                        raise _LeaveBase(0)
                self.events.append(('exit', None))
            except _Leave:
                self.events.append(('exit_exc', None))
            except _LeaveBase:
                self.events.append(('exit_base', None))
            except Exception as ex:  # noqa
                self.events.append((tok, type(ex).__name__))
            self.snapshots.append(self.snapshot())
            self.others()
        final = self.snapshot()
        if self.path:
            self.f.close()
        return final

    def play(self):
        if self.case.get('shape') == 'sequential':
            return self.play_sequential()
        tokens = list(self.case['history'])
        k = sum(1 for t in tokens if t.startswith('exit'))
        pos = 0
        if k:
            pos = self.nest(tokens, 0, k)
        else:
            for item in self.items:
                self.w.write(item)
        while pos < len(tokens):
            self.do_close()
            pos += 1
        final = self.snapshot()
        if self.path:
            self.f.close()
        return final


class _Leave(Exception):
    """Raised inside a with-block by the driver to leave it through an exception."""


class _LeaveBase(SystemExit):
    """...through a BaseException that is not an Exception (what sys.exit() inside the block raises)."""


def judge(ctx, case):
    m = ctx.mciipm
    d = Driver(ctx, case)
    kind, final = ctx.call(d.play, budget=400000)
    ctx.count('histories played')
    ctx.count('finalisations observed', len(d.events))
    if kind != 'ok':
        ctx.violation('history:%s' % ('step_budget' if kind == 'steps' else 'exception:' + type(final).__name__),
                      {'case': case, 'detail': repr(final)})
        ctx.case_done(nontrivial=True, enumerated=True)
        return
    for tok, exc in d.events[1:]:
        if exc:
            ctx.count('repeated finalisation refused with %s (not judged)' % exc)
    if d.events and d.events[0][1]:
        ctx.violation('first_finalisation_raised:%s' % d.events[0][1], {'case': case, 'events': d.events})
    blocked = case['fmt'] == '1014'
    # expected records
    if case['writer'] == 'IpmWriter':
        raw = [ctx.iso8583.dumps(dict(x)) for x in ipm_records(ctx, case['records'])]
        want = [ctx.iso8583.loads(r) for r in raw]
    else:
        raw = raw_records(case['records'])
        want = raw
    first = d.snapshots[0] if d.snapshots else None
    detail = {'events': d.events, 'len_after_each_finalisation': [len(s) for s in d.snapshots], 'final_len': len(final)}
    if first is not None and final != first:
        grew = len(final) > len(first)
        same_prefix = final[:len(first)] == first
        mech = 'file_changed_after_first_finalisation:' + ('appended' if grew and same_prefix else 'overwritten')
        detail['first_diff'] = next((i for i, (a, b) in enumerate(zip(first, final)) if a != b), None)
        ctx.violation(mech, {'case': case, 'detail': detail})
    # reads back as the records written: reference reader on the bytes ...
    P = ref.payload_stream(final) if blocked else final
    got_ref, ending = ref.vbs_records_in(P)
    layout_ok = got_ref == raw and ending == 'end' and (ref.well_blocked(final) is None if blocked else
                                                        final == ref.vbs(raw))
    if not layout_ok:
        ctx.violation('file_does_not_hold_the_records_written:reference_reader',
                      {'case': case, 'detail': dict(detail, want=len(raw), got=len(got_ref), ending=ending)})
    # ... and the real reader
    def readback():
        if case['writer'] == 'IpmWriter':
            return list(m.IpmReader(io.BytesIO(final), blocked=blocked))
        return list(m.VbsReader(io.BytesIO(final), blocked=blocked))
    k2, got = ctx.call(readback, budget=400000)
    if k2 != 'ok':
        ctx.violation('readback:%s' % ('step_budget' if k2 == 'steps' else 'exception:' + type(got).__name__),
                      {'case': case, 'detail': dict(detail, error=repr(got))})
    elif got != want:
        ctx.violation('file_does_not_hold_the_records_written:real_reader',
                      {'case': case, 'detail': dict(detail, want=len(want), got=len(got))})
    ctx.case_done(nontrivial=True, enumerated=True)
    ctx.seen('history shapes', ''.join({'exit_exc': 'x', 'exit_base': 'b'}.get(t, t[0]) for t in case['history']))
    ctx.seen('realisations', case.get('shape', 'nested'))
    if len(case['history']) == 3 and case['records'] == 'three' and case['file'] == 'bytesio':
        ctx.sample(dict(case, events=d.events, file_len=len(final)))


def canaries(ctx):
    recs = raw_records('three')
    good = ref.vbs(recs)
    clobbered = b'\x00\x00\x00\x00' + good[4:]
    ctx.canary('terminator written over first prefix reads as empty', ref.vbs_records_in(clobbered)[0] == [])
    ctx.canary('appended terminator changes bytes', good + b'\x00\x00\x00\x00' != good)
    ctx.canary('good file reads back', ref.vbs_records_in(good) == (recs, 'end'))
    hs = list(histories(4))
    ctx.canary('120 histories up to length 4', len(hs) == 120 and ['exit', 'close', 'exit'] in hs and ['close', 'exit_exc'] in hs)


def require(m):
    reasons = []
    shapes = set(m['classes'].get('history shapes', ()))
    if set(m['classes'].get('realisations', ())) != {'nested', 'sequential'}:
        reasons.append('both realisations (nested / sequential with-blocks) not driven')
    if not m['counters'].get('other writers finalised between two finalisations of the observed one') and not m['violations']:
        reasons.append('no history with other writers in between')
    for need in ('c', 'e', 'x', 'b', 'ce', 'ec', 'cc', 'ee', 'cx', 'xc', 'cb', 'bc', 'ece', 'cxc'):
        if need not in shapes:
            reasons.append('history %s never played' % need)
    return reasons
