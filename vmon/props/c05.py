"""C05 - 1014 unblocking: reads return the exact payload stream for every read sequence."""
import io

from .. import sentinel
from ..ref import blocking as ref
from .c04 import coded

ID = 'C05'
LEVEL = 'fault_enumeration'
ANCHORS = ('Unblock1014.read', 'unblock_1014')
RULE = ('read cases = (file, residue r of bytes already delivered mod 1012, chunking that reached it, next read size '
        'n in 1..2024), followed by read(7), read() with no size and one more read; every returned slice is compared '
        'with the reference payload stream (first 1012 bytes of each 1014-byte chunk). Fault cases = every truncation '
        'length of 1..4-block files and every wrong value of every trailer byte fed to unblock_1014. Enumerated cases '
        'are distinct by construction. Non-trivial: the file has at least one payload byte.')
ASSUMPTIONS = ['vmon/ref/blocking.py payload-stream model', 'io.BytesIO (never returns short reads)',
               'a read of size 0 must return nothing and leave later reads correct; negative sizes are outside the statement; '
               'read(None) judged only if it returns']
MAXN = 2024
QUICK_RESIDUES = [0, 1, 2, 3, 504, 505, 506, 507, 508, 1008, 1009, 1010, 1011]

_DATA = coded(2300 * 1012)


def _filly():
    """the same stream with whole payload blocks of the fill byte in it (blocks 1, 3 and every 7th), a block of zeros, and an
    unaligned stretch: x'40' is the EBCDIC blank, so real files carry such blocks"""
    d = bytearray(_DATA[:80 * 1012])
    for b in [1, 3] + list(range(7, 80, 7)):
        d[b * 1012:(b + 1) * 1012] = b'\x40' * 1012
    d[5 * 1012:6 * 1012] = b'\x00' * 1012
    d[9 * 1012 + 500:10 * 1012 + 700] = b'\x40' * 1212
    return bytes(d)


def _blanky():
    """... and with whole payload blocks (and block starts) of ASCII white space: blanks, line ends, tabs, form feeds"""
    d = bytearray(_DATA[:80 * 1012])
    for b, pat in ((1, b' '), (2, b'\r\n'), (3, b'\t'), (5, b'\x0b\x0c'), (6, b'\n'), (8, b' \x00')):
        d[b * 1012:(b + 1) * 1012] = (pat * 1012)[:1012]
    for b in range(9, 80, 5):
        d[b * 1012:b * 1012 + 300] = b' ' * 300          # a block that merely starts with blanks
    return bytes(d)


_DATA2 = _filly()
_DATA3 = _blanky()
_CONTENT = {'coded': _DATA, 'filly': _DATA2, 'blanky': _DATA3}


def files():
    """name -> file bytes.  Position-coded payloads; F5s has a short (non-conforming) last chunk."""
    return {
        'F1': ref.block(_DATA[:975]),
        'F3': ref.block(_DATA[:3 * 1012 - 5]),
        'F5s': ref.block(_DATA[:5 * 1012]) + _DATA[5 * 1012:5 * 1012 + 500],
        'F2x': ref.block(_DATA[:2 * 1012]),
        'F70': ref.block(_DATA[:70 * 1012 - 300]),          # larger than 64 KiB
        'F200': ref.block(_DATA[:200 * 1012 - 11]),
        'F2300': ref.block(_DATA[:2300 * 1012 - 77]),       # larger than 2 MiB
        'F12f': ref.block(_DATA2[:12 * 1012 - 9]),          # whole blocks of fill bytes inside the data
    }


_FILES = files()
_BIGGEST = max(len(v) for v in _FILES.values())
_PAYLOAD = {k: ref.payload_stream(v) for k, v in _FILES.items()}


def prepare(ctx):
    from cardutil import mciipm
    import cardutil
    ctx.mciipm = mciipm
    ctx.CardutilError = cardutil.CardutilError


def chunking_for(ctx, r, c):
    if c == 0:
        return [r] if r else []
    rng = ctx.rng_global('split', r, c)
    if c == 1:
        s = rng.randint(0, r)
        return [x for x in (s, r - s) if x] if r else [1012]
    a = rng.randint(0, r)
    k = rng.choice([1, 2])
    return [x for x in (1012 * k + a, r - a) if x]


def cases(ctx):
    if ctx.tier == 'thorough':
        residues = list(range(1012))
    else:
        rng = ctx.rng_global('residues')
        residues = sorted(set(QUICK_RESIDUES) | set(rng.sample(range(1012), 87)))
    names = ['F3', 'F5s', 'F5s']
    i = 0
    for r in residues:
        for c in range(3):
            if ctx.mine(i):
                yield {'kind': 'reads', 'file': names[c] if r % 4 else ['F1', 'F2x', 'F3'][c], 'r': r, 'c': c,
                       'pre': chunking_for(ctx, r, c), 'sizes': [0, MAXN]}
            i += 1
    if ctx.shard == 0:
        ctx.exhaustive_subspace('residues x 3 chunkings x next read size 0..2024', len(residues) * 3 * (MAXN + 1))
    # read() with no size at every residue
    for r in residues:
        if ctx.mine(i):
            yield {'kind': 'readall', 'file': 'F3' if r % 2 else 'F5s', 'pre': [r] if r else []}
        i += 1
    # seeded long sequences (size 0 and sizes far above two blocks included), small and large files
    rng = ctx.rng('seq')
    for j in range((400 if ctx.tier == 'quick' else 60000) // ctx.nshards + 1):
        name = rng.choice(list(_FILES))
        big = name in ('F70', 'F200', 'F2300')
        pool = [0, 1, 2, 3, 4, 7, 100, 1011, 1012, 1013, 1014, 2024, 2025, 3000, rng.randint(1, 1300)]
        if big:
            pool += [4096, 8192, 16384, 65535, 65536, 65537, 66000, 70000, 131072, rng.randint(2025, 90000)]
            if name == 'F2300':
                pool += [1 << 20, (1 << 20) + 1, 1 << 21, (1 << 21) + 5, 1038336, 2097152 - 200]
        sizes = [rng.choice(pool) for _ in range(rng.randint(1, 14))]
        yield {'kind': 'seq', 'file': name, 'sizes': sizes}
    # read() with no size on files larger than 64 KiB, after a few different pre-reads
    for name in ('F70', 'F200', 'F2300'):
        for pre in ([], [1], [1012], [4, 2021], [65536], [66000, 7], [0, 5], [5, 0], [1 << 20, 3], [2097152]):
            if ctx.mine(i):
                yield {'kind': 'readall', 'file': name, 'pre': pre}
            i += 1
    # unblock_1014 fault enumeration
    for content in ('coded', 'filly', 'blanky'):
        for k in (1, 2, 3, 4) + ((7, 10) if content == 'blanky' else ()):
            if ctx.mine(i):
                yield {'kind': 'truncations', 'blocks': k, 'content': content}
            i += 1
            for which in range(2 * k):
                if ctx.mine(i):
                    yield {'kind': 'trailers', 'blocks': k, 'which': which, 'content': content}
                i += 1
    if ctx.shard == 0:
        ctx.exhaustive_subspace('unblock_1014: every truncation length of 1..4 blocks', 3 * sum(k * 1014 + 1 for k in (1, 2, 3, 4)) + 7 * 1014 + 10 * 1014 + 2)
        ctx.exhaustive_subspace('unblock_1014: every trailer byte x 255 wrong values', (3 * 20 + 34) * 255)
    # inverse of the blocking function
    rng = ctx.rng('inv')
    for j in range((200 if ctx.tier == 'quick' else 30000) // ctx.nshards + 1):
        yield {'kind': 'inverse', 'n': rng.choice([0, 1, 1011, 1012, 1013, 2023, 2024, 2025, rng.randint(0, 6000)]),
               'content': ('coded', 'filly', 'blanky')[j % 3]}
    for n in (2024, 2025, 3036, 4048, 8 * 1012, 8 * 1012 - 1, 11 * 1012 + 5, 80 * 1012):
        if ctx.mine(i):
            yield {'kind': 'inverse', 'n': n, 'content': 'filly'}
        i += 1
    # records from a blocked file = records from the unblocked stream
    rng = ctx.rng('vbs')
    for j in range((100 if ctx.tier == 'quick' else 15000) // ctx.nshards + 1):
        yield {'kind': 'records', 'lens': [rng.choice([1, 4, 1004, 1008, 1012, 2020, rng.randint(1, 1500)])
                                           for _ in range(rng.randint(1, 9))]}
    # one file of thousands of records (more than 1 MiB and more than 2 MiB of blocks)
    if ctx.mine(i):
        yield {'kind': 'records', 'lens': [997 + (k * 37) % 600 for k in range(900 if ctx.tier == 'quick' else 2500)], 'big': True}
    i += 1
    if ctx.mine(i):
        yield {'kind': 'records', 'lens': [5800 + (k % 200) for k in range(420)], 'big': True}
    i += 1


def rd(ctx, u, *args, cap=_BIGGEST):
    # bounded progress, not a fixed allowance: 20 000 lines plus 100 per byte that the call may have to move
    n = args[0] if args and isinstance(args[0], int) and args[0] >= 0 else cap
    kind, val = ctx.call(u.read, *args, budget=sentinel.budget_bulk(min(n, cap) + 2028))
    ctx.count('Unblock1014.read calls')
    return kind, val


def fail(ctx, case, mech, detail):
    ctx.violation(mech, {'case': case, 'detail': detail})


def unexpected(ctx, case, kind, val, where):
    if kind == 'steps':
        fail(ctx, case, '%s:step_budget' % where, {'site': val})
    else:
        fail(ctx, case, '%s:exception:%s' % (where, type(val).__name__), {'error': repr(val)})


def run_reads(ctx, case, name, sizes, tail=True):
    """Drive reads of the given sizes, then (tail) read(7), read(), read(5).  True if all agree with the model."""
    m = ctx.mciipm
    P = _PAYLOAD[name]
    u = m.Unblock1014(io.BytesIO(_FILES[name]))
    pos = 0
    for idx, n in enumerate(sizes):
        kind, got = rd(ctx, u, n)
        if kind != 'ok':
            unexpected(ctx, case, kind, got, 'read')
            return False
        want = P[pos:pos + n]
        if n == 0:
            ctx.count('reads of size 0 judged')
        elif n > 2024:
            ctx.count('reads larger than two blocks judged')
        if got != want:
            fail(ctx, case, 'read:wrong_slice', {'read_index': idx, 'size': n, 'pos': pos, 'got_len': len(got),
                                                'want_len': len(want), 'got_head': got[:16].hex(), 'want_head': want[:16].hex()})
            return False
        pos += len(want)
    if not tail:
        return True
    kind, got = rd(ctx, u, 7)
    if kind != 'ok' or got != P[pos:pos + 7]:
        if kind != 'ok':
            unexpected(ctx, case, kind, got, 'read')
        else:
            fail(ctx, case, 'read:wrong_slice', {'after': 'sweep read', 'size': 7, 'pos': pos, 'got': got.hex()})
        return False
    pos += len(got)
    kind, got = rd(ctx, u, cap=len(_FILES[name]))
    if kind != 'ok':
        unexpected(ctx, case, kind, got, 'read_all')
        return False
    if got != P[pos:]:
        fail(ctx, case, 'read_all:not_everything_that_remains',
             {'pos': pos, 'remaining': len(P) - pos, 'got_len': len(got)})
        return False
    kind, got = rd(ctx, u, 5)
    if kind != 'ok' or got != b'':
        if kind != 'ok':
            unexpected(ctx, case, kind, got, 'read')
        else:
            fail(ctx, case, 'read_all:data_delivered_again_after_read_all', {'got_len': len(got)})
        return False
    return True


def judge(ctx, case):
    kind = case['kind']
    m = ctx.mciipm
    if kind == 'reads':
        lo, hi = case['sizes']
        ok_all = True
        for n in range(lo, hi + 1):
            narrowed = dict(case, sizes=[n, n])
            # the no-size tail is driven on one size in eight (it is covered for every residue by 'readall')
            ok_all &= run_reads(ctx, narrowed, case['file'], case['pre'] + [n], tail=(n % 8 == case['r'] % 8))
        ctx.case_done(nontrivial=True, enumerated=True, n=hi - lo + 1)
        if case['r'] in (0, 505) and ok_all:
            ctx.sample({'file': case['file'], 'file_len': len(_FILES[case['file']]), 'pre_reads': case['pre'],
                        'next_read_sizes': case['sizes']})
        return
    if kind == 'readall':
        name = case['file']
        P = _PAYLOAD[name]
        pos = min(sum(case['pre']), len(P))
        for variant in ('noarg', 'none'):
            u = m.Unblock1014(io.BytesIO(_FILES[name]))
            ok = True
            for n in case['pre']:
                k, got = rd(ctx, u, n)
                ok = ok and k == 'ok'
            if not ok:
                continue
            k, got = rd(ctx, u, cap=len(_FILES[name])) if variant == 'noarg' else rd(ctx, u, None, cap=len(_FILES[name]))
            if k == 'exc' and variant == 'none' and isinstance(got, TypeError):
                ctx.count('read(None) refused with TypeError (not judged)')
                continue
            if k != 'ok':
                unexpected(ctx, case, k, got, 'read_all')
                continue
            if got != P[pos:]:
                fail(ctx, dict(case, variant=variant), 'read_all:not_everything_that_remains',
                     {'variant': variant, 'pos': pos, 'remaining': len(P) - pos, 'got_len': len(got)})
                continue
            k, again = rd(ctx, u, 9)
            if k != 'ok':
                unexpected(ctx, case, k, again, 'read')
            elif again != b'':
                fail(ctx, dict(case, variant=variant), 'read_all:data_delivered_again_after_read_all',
                     {'variant': variant, 'got_len': len(again)})
            k, again = rd(ctx, u) if variant == 'noarg' else rd(ctx, u, None)
            if k == 'ok' and again != b'':
                fail(ctx, dict(case, variant=variant), 'read_all:data_delivered_again_after_read_all',
                     {'variant': variant, 'second_read_all_len': len(again)})
        ctx.case_done(nontrivial=True, enumerated=True)
        ctx.count('read() with no size judged')
        return
    if kind == 'seq':
        ok = run_reads(ctx, case, case['file'], case['sizes'])
        ctx.case_done(['seq', case['file'], case['sizes']])
        if ok:
            ctx.sample({'file': case['file'], 'read_sizes': case['sizes']})
        return
    if kind == 'truncations':
        k = case['blocks']
        full = ref.block(_CONTENT[case.get('content', 'coded')][:k * 1012 - 3])
        lo, hi = case.get('range', [0, len(full)])
        for t in range(lo, hi + 1):
            judge_unblock(ctx, dict(case, range=[t, t]), full[:t])
        ctx.case_done(nontrivial=True, enumerated=True, n=hi - lo + 1)
        return
    if kind == 'trailers':
        k = case['blocks']
        full = bytearray(ref.block(_CONTENT[case.get('content', 'coded')][:k * 1012 - 3]))
        which = case['which']
        off = (which // 2) * 1014 + 1012 + (which % 2)
        vals = case.get('values') or [v for v in range(256) if v != 0x40]
        for v in vals:
            bad = bytes(full[:off]) + bytes([v]) + bytes(full[off + 1:])
            judge_unblock(ctx, dict(case, values=[v]), bad)
        ctx.case_done(nontrivial=True, enumerated=True, n=len(vals))
        return
    if kind == 'inverse':
        n = case['n']
        x = _CONTENT[case.get('content', 'coded')][:n]
        if b'\x40' * 1012 in x:
            ctx.count('unblock_1014 inverse runs on data holding a whole stretch of fill bytes')
        mid, out = io.BytesIO(), io.BytesIO()
        k1, v1 = ctx.call(m.block_1014, io.BytesIO(x), mid, budget=sentinel.budget_for(n))
        if k1 != 'ok':
            return  # C04's business
        k2, v2 = ctx.call(m.unblock_1014, io.BytesIO(mid.getvalue()), out, budget=sentinel.budget_for(n))
        ctx.count('unblock_1014 calls')
        if k2 != 'ok':
            unexpected(ctx, case, k2, v2, 'unblock_1014(inverse)')
        else:
            got = out.getvalue()
            if got[:n] != x or got[n:].strip(b'\x40') or len(got) - n >= 1012 + (1 if n == 0 else 0):
                fail(ctx, case, 'unblock_1014:not_inverse_up_to_fill', {'n': n, 'got_len': len(got)})
        ctx.case_done(['inv', n, case.get('content', 'coded')], nontrivial=n > 0)
        return
    if kind == 'records':
        recs = []
        pos = 0
        for ln in case['lens']:
            recs.append(_DATA[pos:pos + ln])
            pos = (pos + ln) % 300000
        stream = ref.vbs(recs)
        budget = 200000 + 60 * len(recs) + len(stream) // 10
        k1, got_plain = ctx.call(lambda: list(m.VbsReader(io.BytesIO(stream))), budget=budget)
        k2, got_blocked = ctx.call(lambda: list(m.VbsReader(io.BytesIO(ref.block(stream)), blocked=True)), budget=budget)
        if case.get('big'):
            ctx.count('blocked files over 1 MiB read record by record')
        ctx.count('VbsReader(blocked) runs')
        if k2 != 'ok':
            unexpected(ctx, case, k2, got_blocked, 'VbsReader(blocked)')
        elif got_blocked != recs or (k1 == 'ok' and got_blocked != got_plain):
            fail(ctx, case, 'records:blocked_differs_from_unblocked', {'lens': case['lens'],
                                                                      'got_lens': [len(r) for r in got_blocked]})
        else:
            # the same file object read by a second blocked reader after a rewind (count first, then read)
            def again():
                f = io.BytesIO(ref.block(stream))
                next(m.VbsReader(f, blocked=True), None)
                f.seek(0)
                return list(m.VbsReader(f, blocked=True))
            k3, got_again = ctx.call(again, budget=budget)
            ctx.count('second blocked reader on a rewound file object')
            if k3 == 'ok' and got_again == recs:
                # ... and a real file behind a buffered reader that was sampled and rewound before the reader got it
                def sniffed():
                    import os
                    import tempfile
                    fd, path = tempfile.mkstemp(prefix='vmon-c05-')
                    try:
                        with os.fdopen(fd, 'wb') as fh:
                            fh.write(ref.block(stream))
                        with open(path, 'rb') as f:
                            f.read(2500)
                            f.seek(0)
                            return list(m.VbsReader(f, blocked=True))
                    finally:
                        os.unlink(path)
                k3, got_again = ctx.call(sniffed, budget=budget)
                ctx.count('blocked files read through a buffered reader that was sampled and rewound')
            if k3 != 'ok':
                unexpected(ctx, case, k3, got_again, 'VbsReader(blocked) after rewind')
            elif got_again != recs:
                fail(ctx, case, 'records:second_reader_after_rewind_differs', {'lens': case['lens'], 'got_lens': [len(r) for r in got_again][:20]})
        ctx.case_done(['rec', case['lens']])
        return
    raise ValueError(kind)


def judge_unblock(ctx, case, data):
    m = ctx.mciipm
    out = io.BytesIO()
    kind, val = ctx.call(m.unblock_1014, io.BytesIO(data), out, budget=sentinel.budget_for(len(data)))
    ctx.count('unblock_1014 calls')
    problem = ref.well_blocked(data)
    if kind == 'steps':
        fail(ctx, case, 'unblock_1014:step_budget', {'site': val})
        return
    if problem is None:
        if len(data) == 0:
            ctx.count('unblock_1014 on empty input (not judged)')
            return
        if kind != 'ok':
            fail(ctx, case, 'unblock_1014:refused_well_formed_input', {'len': len(data), 'error': repr(val)})
        elif out.getvalue() != ref.payload_stream(data):
            fail(ctx, case, 'unblock_1014:wrong_payload', {'len': len(data), 'got_len': len(out.getvalue())})
        else:
            ctx.count('unblock_1014 accepted well-formed input')
        return
    if kind == 'ok':
        fail(ctx, case, 'unblock_1014:accepted_malformed_input', {'len': len(data), 'problem': problem})
    else:
        ctx.count('unblock_1014 refused malformed input with ' + type(val).__name__)


def canaries(ctx):
    ctx.repo_tests_under_monitors(('C05',))       # second, independent workload for the same oracle
    P = _PAYLOAD['F3']
    ctx.canary('model drops trailers', P[1012:1013] == _DATA[1012:1013] and len(P) == 3036)
    ctx.canary('short last chunk keeps its bytes', len(_PAYLOAD['F5s']) == 5 * 1012 + 500)
    ctx.canary('well_blocked rejects odd length', ref.well_blocked(_FILES['F3'][:-1]) is not None)
    bad = bytearray(_FILES['F3'])
    bad[1013] = 0x41
    ctx.canary('well_blocked rejects bad second trailer byte', ref.well_blocked(bytes(bad)) is not None)

    class Broken:
        """an unblocker that forgets the remainder: the model comparison must notice"""
        def __init__(self, f):
            self.f = f

        def read(self, n=None):
            return self.f.read(1014)[:n]

    class FakeMod:
        Unblock1014 = Broken
    real = ctx.mciipm
    probe = type(ctx)(ctx.prop_id, ctx.tier, ctx.seed)
    probe.mciipm = FakeMod
    run_reads(probe, {'canary': True}, 'F3', [10, 10], tail=False)
    ctx.canary('remainder-dropping unblocker detected', bool(probe.violations))
    ctx.mciipm = real


def require(m):
    reasons = []
    c = m['counters']
    if not c.get('blocked files over 1 MiB read record by record'):
        reasons.append('no blocked file over 1 MiB was read record by record')
    if not c.get('reads of size 0 judged'):
        reasons.append('no read of size 0 judged')
    if not c.get('reads larger than two blocks judged'):
        reasons.append('no read larger than two blocks judged')
    if not c.get('read() with no size judged'):
        reasons.append('read() with no size never judged')
    if not c.get('unblock_1014 accepted well-formed input'):
        reasons.append('unblock_1014 never accepted a well-formed file')
    if not c.get('unblock_1014 inverse runs on data holding a whole stretch of fill bytes'):
        reasons.append('unblock_1014 never run on data holding a whole payload of fill bytes')
    if not any(k.startswith('unblock_1014 refused') for k in c) and not any(
            k.startswith('unblock_1014:') for k in m['violations']):
        reasons.append('no malformed input reached unblock_1014')
    return reasons
