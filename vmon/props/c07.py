"""C07 - decoding never hangs or crashes: any bytes give a result or the library error."""
import contextlib
import datetime
import decimal
import io
import logging
import os
import shutil
import tempfile

from .. import gen, msgwork, mutate, sentinel
from ..core import hx, unhx, digest
from ..ref import blocking as refb
from ..ref import codec as ref
from .c09 import PipeLike

ID = 'C07'
LEVEL = 'fault_enumeration'
CPU_VERDICT = True       # "terminates promptly": a call ended by the kernel for using up its CPU allowance is a violation here
ANCHORS = ('_iso8583_to_dict', '_iso8583_to_field', '_pds_to_dict', '_icc_to_dict', '_string_to_pytype', 'IpmReader.__next__',
           'VbsReader.__next__', 'cli_run', 'extract', '_get_de43_fields')
RULE = ('case = one byte string fed to loads, or one file fed to VbsReader / IpmReader / the two extraction tools, under a '
        'line-step budget of 20 000 + 100 per input byte. Inputs: well-formed bases (every field kind; PDS sub-elements of '
        'lengths 0, 7, 8, 10, 99) with every structural byte (bitmap, length prefixes, PDS tags and sub-lengths, TLV tags and '
        'lengths) set to all 256 values, every length field rewritten to negative / zero / at-over-far-over spellings, '
        'truncation at every offset, seeded multi-point mutation, and random byte strings. Outcome must be a dict or '
        'Iso8583DataError (loads), records then end or MciIpmDataError (readers), a normal return (tools). Enumerated mutants '
        'are distinct by construction, sampled ones by digest. Non-trivial: header present and MTI numeric (field walk reached).')
ASSUMPTIONS = ['termination is judged as bounded progress in executed cardutil source lines, not wall-clock time',
               'vmon/ref/codec.py builds and lays out the base messages', 'tools are run in-process with out_encoding utf8']
SHARD_TIMEOUT = {'quick': 1800, 'thorough': 14400}
ENCODINGS = ('latin_1', 'ascii', 'cp500', 'cp037')


def prepare(ctx):
    from cardutil import iso8583, mciipm, CardutilError
    from cardutil.config import config
    from cardutil.cli import mci_ipm_to_csv, mideu
    ctx.iso, ctx.mciipm, ctx.CardutilError = iso8583, mciipm, CardutilError
    ctx.tool_csv, ctx.tool_mideu = mci_ipm_to_csv, mideu
    from cardutil.cli import paramconv
    ctx.tool_paramconv = paramconv
    msgwork.set_packaged(config['bit_config'])
    ctx.tmpdir = None


def finish(ctx):
    if ctx.tmpdir:
        shutil.rmtree(ctx.tmpdir, ignore_errors=True)


def decimal_cfg(ctx):
    """One generated configuration that is guaranteed to contain a decimal element, PDS carriers and an ICC element."""
    for k in range(200):
        cid = ['gen', ctx.seed * 7919 + 5000 + k]
        cfg = msgwork.cfg_of(cid)
        kinds = {c.get('field_python_type') for c in cfg.values()}
        procs = {c.get('field_processor') for c in cfg.values()}
        if 'decimal' in kinds and 'PDS' in procs and 'ICC' in procs and 'datetime' in kinds:
            return cid
    return ['gen', ctx.seed * 7919 + 5000]


def base(ctx, k):
    """Deterministic base message k: (cfg id, enc, hex_bitmap, wire bytes)."""
    rng = ctx.rng_global('base', k)
    enc = ENCODINGS[k % 4]
    hexbm = (k // 4) % 2 == 1
    if k % 5 == 4:
        cid = decimal_cfg(ctx)
        cfg = msgwork.cfg_of(cid)
        msg = gen.gen_message(rng, cfg, enc, subset=gen.data_bits(cfg), pds_mode='none')
        car = ref.carriers_of(cfg)
        if car:
            msg['DE%d' % car[0]] = pds_text(rng)
        for b, c in cfg.items():
            if c.get('field_python_type') == 'decimal' and c['field_type'] == 'FIXED':
                msg['DE' + b] = gen.gen_value(rng, c, enc)
    else:
        cid = 'packaged'
        cfg = msgwork.cfg_of(cid)
        msg = {'MTI': '1240', 'DE2': ''.join(rng.choice('0123456789') for _ in range(rng.choice([13, 16, 19]))),
               'DE3': '000000', 'DE4': rng.randint(0, 10 ** 11), 'DE12': datetime.datetime(2024, 2, 29, 23, 59, 58),
               'DE26': rng.randint(0, 9999), 'DE31': gen.text(rng, enc, 23, 'digits'),
               'DE43': 'ACME STORE 12\\1 LONG STREET\\SYDNEY\\2000      NSWAUS', 'DE48': pds_text(rng),
               'DE55': bytes.fromhex('9f2608' + '0102030405060708' + '9f2701' + '80' + '5f2a02' + '0036' + '8202' + '1c00'
                                     + '9a03' + '240229' + '9f1007' + '06010a03a00000'),
               'DE63': gen.text(rng, enc, 16, 'alnum'), 'DE71': 12345678, 'DE100': '12345678901',
               'DE123': '0170010' + 'ABCDEFGHIJ' + '0171000' + '0172003' + 'xyz'}
        if k % 3 == 0:
            msg['DE72'] = gen.text(rng, enc, rng.randint(100, 400), 'mixed')
        if k % 3 == 1:
            for b in rng.sample([5, 6, 9, 10, 14, 22, 23, 24, 25, 30, 32, 33, 37, 38, 40, 41, 42, 49, 50, 51, 54, 62, 73, 93, 94, 95,
                                 111, 124, 125, 127], 8):
                c = cfg[str(b)]
                if c.get('field_processor') == 'PDS':
                    msg['DE%d' % b] = '0300002AB'
                else:
                    msg['DE%d' % b] = gen.gen_value(rng, c, enc)
    return cid, enc, hexbm, ref.encode(msg, cfg, enc, hexbm)


def pds_text(rng):
    """PDS carrier with sub-elements of lengths 7, 8, 10, 99 and 0 - so that one changed byte can spell -07, -08, -10, -99."""
    parts = []
    tag = rng.randint(1, 50)
    for n in (7, 8, 10, 99, 0, 3):
        parts.append('%04d%03d%s' % (tag, n, ''.join(rng.choice('ABCDEFGH0123456789') for _ in range(n))))
        tag += rng.randint(1, 30)
    return ''.join(parts)


FAMILIES = ('byte_sweeps', 'length_rewrites', 'hex_bitmap_spellings', 'typed_content_words', 'icc_tails', 'icc_long_form_lengths', 'short_headers', 'truncations', 'extensions', 'multipoint')


def family_iter(ctx, name, data, L, enc, k):
    if name == 'byte_sweeps':
        return mutate.byte_sweeps(data, L)
    if name == 'length_rewrites':
        return mutate.length_rewrites(data, L, enc)
    if name == 'truncations':
        return mutate.truncations(data)
    if name == 'hex_bitmap_spellings':
        return mutate.hex_bitmap_spellings(data, len(L.bitmap) == 32)
    if name == 'icc_tails':
        return mutate.icc_tails(data, L, msgwork.cfg_of(base(ctx, k)[0]), enc)
    if name == 'short_headers':
        return mutate.short_headers(data, len(L.bitmap) == 32)
    if name == 'icc_long_form_lengths':
        return mutate.icc_long_form_lengths(data, L, msgwork.cfg_of(base(ctx, k)[0]), enc)
    if name == 'typed_content_words':
        return mutate.typed_content_words(data, L, msgwork.cfg_of(base(ctx, k)[0]), enc)
    if name == 'extensions':
        return mutate.extensions(data)
    return mutate.multipoint(data, ctx.rng_global('multi', k), 3000 if ctx.tier == 'quick' else 8000)


def cases(ctx):
    nbases = 20 if ctx.tier == 'quick' else 400
    i = 0
    for k in range(nbases):
        for fam in FAMILIES:
            # byte sweeps are the bulk: split them over shards in slices
            slices = 8 if fam in ('byte_sweeps', 'multipoint') else 1
            for s in range(slices):
                i += 1
                if ctx.mine(i):
                    yield {'kind': 'base', 'base': k, 'family': fam, 'slice': [s, slices]}
    rng = ctx.rng('random')
    n = (40000 if ctx.tier == 'quick' else 2000000) // ctx.nshards
    yield {'kind': 'random', 'n': n, 'salt': ctx.shard}
    nfiles = 6 if ctx.tier == 'quick' else 60
    for k in range(nfiles):
        i += 1
        if ctx.mine(i):
            yield {'kind': 'file', 'base': k}
    for k in range(8 if ctx.tier == 'quick' else 64):
        i += 1
        if ctx.mine(i):
            yield {'kind': 'process', 'base': k}
    for fmt in ('1014', 'vbs'):
        i += 1
        if ctx.mine(i):
            yield {'kind': 'scaling', 'fmt': fmt}
    for enc in ('latin_1', 'cp500'):
        for blocked in (False, True):
            i += 1
            if ctx.mine(i):
                yield {'kind': 'valid_but_awkward', 'enc': enc, 'blocked': blocked}
    for enc in ('latin_1', 'cp500'):
        i += 1
        if ctx.mine(i):
            yield {'kind': 'cpu_guard', 'enc': enc}
    from .. import optrun
    for j, opts in enumerate(optrun.OPTION_SETS):
        i += 1
        if ctx.mine(i):
            yield {'kind': 'interpreter_options', 'options': list(opts), 'enc': ('latin_1', 'cp500')[j % 2], 'base': 3 + 8 * j}


def lib_error(ctx, which):
    return ctx.iso.Iso8583DataError if which == 'loads' else ctx.mciipm.MciIpmDataError


def outcome(ctx, kind, val, which):
    """Map a guarded call's result to (class, mechanism-or-None)."""
    if kind == 'ok':
        return 'returned', None
    if kind == 'steps':
        site = val[1] if val else '?'
        return 'step_budget', '%s:step_budget@%s' % (which, site)
    if isinstance(val, lib_error(ctx, which)):
        ctx.count('translated: ' + sentinel.chain(val))
        return 'library_error', None
    return 'escape', '%s:escape:%s@%s' % (which, type(val).__name__, sentinel.origin(val) or 'outside_cardutil')


def judge_loads(ctx, data, cid, enc, hexbm, how, enumerated):
    cfg = msgwork.cfg_of(cid)
    budget = sentinel.budget_for(len(data))
    ctx.crumb({'kind': 'one', 'data': hx(data), 'cfg': cid, 'enc': enc, 'hex': hexbm})
    kind, val = ctx.call(ctx.iso.loads, data, encoding=enc, iso_config=cfg, hex_bitmap=hexbm, budget=budget)
    ctx.count('loads calls')
    cls, mech = outcome(ctx, kind, val, 'loads')
    ctx.count('loads outcome: ' + cls)
    if kind == 'ok' and not isinstance(val, dict):
        mech = 'loads:returned_non_dict'
    hdr = 36 if hexbm else 20
    nontrivial = len(data) >= hdr
    if nontrivial:
        try:
            int(data[:4].decode(enc))
        except (ValueError, UnicodeError):
            nontrivial = False
    if enumerated:
        ctx.case_done(nontrivial=nontrivial, enumerated=True)
    else:
        ctx.case_done(digest(data + enc.encode() + bytes([hexbm])), nontrivial=nontrivial)
    if mech:
        ctx.violation(mech, {'case': {'kind': 'one', 'data': hx(data), 'cfg': cid, 'enc': enc, 'hex': hexbm},
                             'how': how, 'input_len': len(data), 'budget': budget,
                             'error': repr(val)[:300] if kind == 'exc' else None})
    return cls


def judge(ctx, case):
    kind = case['kind']
    if kind == 'one':
        judge_loads(ctx, unhx(case['data']), case['cfg'], case['enc'], case['hex'], 'replay', False)
        return
    if kind == 'base':
        k = case['base']
        cid, enc, hexbm, data = base(ctx, k)
        cfg = msgwork.cfg_of(cid)
        L = mutate.layout(data, cfg, enc, hexbm)
        s, slices = case['slice']
        fam = case['family']
        n = 0
        for j, (how, mutant) in enumerate(family_iter(ctx, fam, data, L, enc, k)):
            if j % slices != s:
                continue
            judge_loads(ctx, mutant, cid, enc, hexbm, how, fam != 'multipoint')
            n += 1
        ctx.count('mutants from family ' + fam, n)
        ctx.seen('base shapes', '%s/%s/%s' % ('packaged' if cid == 'packaged' else 'generated', enc, 'hex' if hexbm else 'raw'))
        if s == 0 and fam == 'byte_sweeps' and len(ctx.samples) < 3:
            ctx.sample({'base': k, 'cfg': cid, 'enc': enc, 'hex_bitmap': hexbm, 'wire_len': len(data),
                        'structural_bytes': len(L.bitmap) + sum(p[2] for p in L.prefixes) + 7 * len(L.pds_len) + len(L.icc),
                        'wire_head': hx(data[:48])})
        return
    if kind == 'random':
        rng = ctx.rng('randombytes', case['salt'])
        for _ in range(case['n']):
            n = rng.randint(0, 200)
            r = rng.random()
            if r < 0.5:
                data = rng.randbytes(n)
            elif r < 0.8:
                # random body behind a plausible header so that the field walk is reached
                bm = bytearray(rng.randbytes(16))
                for z in range(16):
                    if rng.random() < 0.7:
                        bm[z] = 0
                data = b'1240' + bytes(bm) + bytes(rng.choice(b'0123456789 -+A\x00\xf0\xf1') for _ in range(n))
            else:
                data = b'1240' + bytes(bm_sparse(rng)).hex().encode() + bytes(rng.choice(b'0123456789') for _ in range(n))
            enc = rng.choice(ENCODINGS)
            hexbm = r >= 0.8 or rng.random() < 0.2
            if enc in ('cp500', 'cp037') and r >= 0.5:
                data = data[:4].decode('ascii').encode(enc) + data[4:]
            judge_loads(ctx, data, 'packaged', enc, hexbm, 'random', False)
        ctx.count('mutants from family random', case['n'])
        return
    if kind == 'file':
        return judge_file(ctx, case)
    if kind == 'cpu_guard':
        return judge_cpu_guard(ctx, case)
    if kind == 'interpreter_options':
        return judge_interpreter_options(ctx, case)
    if kind == 'process':
        return judge_process(ctx, case)
    if kind == 'scaling':
        return judge_scaling(ctx, case)
    if kind == 'valid_but_awkward':
        return judge_awkward(ctx, case)
    if kind == 'onefile':
        fdata, enc, blocked = unhx(case['data']), case['enc'], case['blocked']
        for which in ('VbsReader', 'IpmReader'):
            def body():
                # one file in seven arrives through a stream that cannot seek or tell (a pipe): the outcome classes are the same
                src = PipeLike(fdata) if idx % 7 == 3 else io.BytesIO(fdata)
                if which == 'VbsReader':
                    return sum(1 for _ in ctx.mciipm.VbsReader(src, blocked=blocked))
                return sum(1 for _ in ctx.mciipm.IpmReader(src, encoding=enc, blocked=blocked))
            k2, val = ctx.call(body, budget=sentinel.budget_for(len(fdata)))
            cls, mech = outcome(ctx, k2, val, which)
            if mech:
                ctx.violation(mech, {'case': case, 'error': repr(val)[:300]})
        run_tools(ctx, fdata, enc, blocked, 'replay')
        ctx.case_done(digest(fdata))
        return
    raise ValueError(kind)


def bm_sparse(rng):
    bm = bytearray(16)
    for _ in range(rng.randint(0, 6)):
        b = rng.randint(1, 128)
        bm[(b - 1) // 8] |= 0x80 >> ((b - 1) % 8)
    return bm


# ---------------------------------------------------------------------------------------------------------------- files
def judge_file(ctx, case):
    k = case['base']
    rng = ctx.rng_global('file', k)
    blocked = k % 2 == 1
    enc = ('latin_1', 'cp500')[(k // 2) % 2]
    wires = []
    for j in range(rng.randint(2, 5)):
        n = k * 7 + j
        kk = 8 * n + (0 if enc == 'latin_1' else 2)      # base index with this encoding and a raw bitmap
        while kk % 5 == 4:                                # ... under the packaged configuration
            n += 1
            kk = 8 * n + (0 if enc == 'latin_1' else 2)
        b = base(ctx, kk)
        assert b[0] == 'packaged' and b[1] == enc and not b[2]
        wires.append(b[3])
    stream = refb.vbs(wires)
    data = refb.block(stream) if blocked else stream
    mutants = []
    # every byte of every record length prefix x all values; terminator; block trailers
    pos = 0
    sites = []
    for w in wires:
        off = pos + (pos // 1012) * 2 if blocked else pos
        for b in range(4):
            o = pos + b
            sites.append(o + (o // 1012) * 2 if blocked else o)
        pos += 4 + len(w)
    for b in range(4):
        o = pos + b
        sites.append(o + (o // 1012) * 2 if blocked else o)
    if blocked:
        for blk in range(len(data) // 1014):
            sites += [blk * 1014 + 1012, blk * 1014 + 1013]
    for o in sites:
        if o >= len(data):
            continue
        for v in range(256):
            if v != data[o]:
                mutants.append(('filebyte@%d=%02x' % (o, v), data[:o] + bytes([v]) + data[o + 1:]))
    # message-level faults inside each record (a sample of the loads mutants, embedded in the file)
    cfg = msgwork.cfg_of('packaged')
    for ri, w in enumerate(wires):
        L = mutate.layout(w, cfg, enc, False)
        picks = list(mutate.length_rewrites(w, L, enc))
        rng.shuffle(picks)
        for how, mw in picks[:60 if ctx.tier == 'quick' else 300]:
            recs = wires[:ri] + [mw] + wires[ri + 1:]
            s2 = refb.vbs(recs)
            mutants.append(('record%d:%s' % (ri + 1, how), refb.block(s2) if blocked else s2))
    for how, m2 in mutate.multipoint(data, rng, 400 if ctx.tier == 'quick' else 3000):
        mutants.append((how, m2))
    ctx.seen('file shapes', '%s/%s' % ('1014' if blocked else 'vbs', enc))
    for idx, (how, fdata) in enumerate(mutants):
        ctx.crumb({'kind': 'onefile', 'data': hx(fdata), 'enc': enc, 'blocked': blocked})
        for which in ('VbsReader', 'IpmReader'):
            def body():
                # one file in seven arrives through a stream that cannot seek or tell (a pipe): the outcome classes are the same
                src = PipeLike(fdata) if idx % 7 == 3 else io.BytesIO(fdata)
                if which == 'VbsReader':
                    return sum(1 for _ in ctx.mciipm.VbsReader(src, blocked=blocked))
                return sum(1 for _ in ctx.mciipm.IpmReader(src, encoding=enc, blocked=blocked))
            kind, val = ctx.call(body, budget=sentinel.budget_for(len(fdata)))
            ctx.count(which + ' file iterations')
            cls, mech = outcome(ctx, kind, val, which)
            ctx.count('%s outcome: %s' % (which, cls))
            if mech:
                ctx.violation(mech, {'case': {'kind': 'onefile', 'data': hx(fdata), 'enc': enc, 'blocked': blocked},
                                     'how': how, 'error': repr(val)[:300] if kind == 'exc' else None})
        ctx.case_done(digest(fdata), nontrivial=True)
        if idx % (25 if ctx.tier == 'quick' else 40) == 0:
            run_tools(ctx, fdata, enc, blocked, how)
    if len(ctx.samples) < 5:
        ctx.sample({'file_base': k, 'format': '1014' if blocked else 'vbs', 'enc': enc, 'records': len(wires),
                    'file_len': len(data), 'file_mutants': len(mutants)})


def judge_scaling(ctx, case):
    """
    "Terminates promptly" for big files: reading must scale roughly linearly with file size.  Measured in CPU time of this
    process (not wall-clock), on a 1 MB and an 8 MB file of the same record shape: 8x the data may cost at most 24x the
    CPU time (3x slack over linear), and the verdict is only drawn when the large run took over 2 CPU-seconds - below
    that nothing is slow enough to call a breach.  A quadratic reader (8 MB: 12 s and more) is far outside both bounds.
    """
    import time
    blocked = case['fmt'] == '1014'
    rec = bytes(range(256)) * 4
    times = {}
    for label, nrec in (('1MB', 1000), ('8MB', 8000)):
        stream = refb.vbs([rec[:1000 + (j % 17)] for j in range(nrec)])
        data = refb.block(stream) if blocked else stream
        best = None
        for rep in range(2):
            t0 = time.process_time()
            kind, val = ctx.call(lambda: sum(1 for _ in ctx.mciipm.VbsReader(io.BytesIO(data), blocked=blocked)),
                                 budget=sentinel.budget_for(len(data)))
            dt = time.process_time() - t0
            best = dt if best is None else min(best, dt)
            if kind != 'ok' or val != nrec:
                ctx.violation('scaling:reader_failed_on_large_file', {'case': case, 'size': label, 'outcome': repr(val)[:200]})
                return
            if dt > 2 and label == '8MB':
                break
        times[label] = best
    ctx.case_done(['scaling', case['fmt']])
    ratio = times['8MB'] / max(times['1MB'], 1e-6)
    ctx.count('scaling measurements')
    ctx.seen('cpu seconds for 8x the data vs 1x (%s)' % case['fmt'], '%.2fs vs %.2fs = x%.1f' % (times['8MB'], times['1MB'], ratio))
    if times['8MB'] > 2.0 and ratio > 24:
        ctx.violation('scaling:super_linear_read_time:%s' % case['fmt'],
                      {'case': case, 'cpu_s_1MB': round(times['1MB'], 3), 'cpu_s_8MB': round(times['8MB'], 3), 'ratio': round(ratio, 1)})


def judge_awkward(ctx, case):
    """
    Well-formed records that are awkward to re-encode: five full PDS carriers whose sub-elements, once sorted by tag, no
    longer fit five carriers; PDS tags that are not numeric.  Every tool must still end with a return value.
    """
    cfg = msgwork.cfg_of('packaged')
    enc, blocked = case['enc'], case['blocked']
    car = ref.carriers_of(cfg)
    full = {'MTI': '1240', 'DE2': '5' * 16}
    for j, b in enumerate(car):
        full['DE%d' % b] = '%04d%03d%s' % (1 + j, 592, 'A' * 592) + '%04d%03d%s' % (101 + j, 393, 'B' * 393)
    odd = {'MTI': '1240', 'DE2': '4' * 16, 'DE48': '00A1003xyzZZ99000'}
    plain = {'MTI': '1240', 'DE2': '4' * 16, 'DE48': '0023003abc'}
    for name, msgs in (('carriers_full_after_sorting', [plain, full, plain]), ('non_numeric_pds_tag', [plain, odd])):
        stream = refb.vbs([ref.encode(x, cfg, enc) for x in msgs])
        fdata = refb.block(stream) if blocked else stream
        before = dict(ctx.violations)
        run_tools(ctx, fdata, enc, blocked, 'valid_but_awkward:' + name)
        ctx.count('valid but awkward files run through the tools: ' + name)
    ctx.case_done(['awkward', enc, blocked])


def de43_shapes():
    """Merchant name/location values that do not fit the configured layout in ways a pattern matcher has to work at: long
    unbroken runs, runs with too few or too many separators, blanks and separators only, right layout with a wrong tail."""
    out = []
    for n in (10, 22, 24, 30, 40, 60, 99):
        out += ['A' * n, 'A' * (n - 1) + '\\', '\\' + 'A' * (n - 1), ('AB ' * n)[:n], ('A ' * n)[:n], ' ' * n, '\\' * n,
                ('A\\' * n)[:n], 'A' * (n // 2) + ' ' * (n - n // 2), ' ' * (n // 2) + 'A' * (n - n // 2),
                ('A' * (n // 2) + '\\' + 'B' * n)[:n], ('A' * (n // 3) + '\\' + 'B' * (n // 3) + '\\' + 'C' * n)[:n]]
    for k in range(0, 21):
        out.append('SHOP NAME\\1 HIGH ST\\TOWN\\' + 'X' * k)
        out.append(('N' * 30 + '\\' + 'A' * 30 + '\\' + 'S' * 20 + '\\' + 'X' * k)[:99])
    out += ['.*+?()[]{}|^$' * 5, 'A' * 50 + '\\\\\\' + 'B' * 40, 'SHOP\\HIGH ST\\TOWN\\ABCDEFGHIJNSW  S', 'SHOP\\HIGH ST\\TOWN\\ABCDEFGHIJNSWAUS']
    return [v for v in out if 0 < len(v) <= 99]


def judge_interpreter_options(ctx, case):
    """The decode / read / write calls in a child interpreter started with other options (-O, -OO, -X utf8, -I):
    good input must give a result, bad input a result or the library's error - never anything else."""
    from .. import optchild, optrun
    enc = case['enc']
    cfg = msgwork.cfg_of('packaged')
    kk = case['base']
    while kk % 5 == 4:
        kk += 8
    cid, e2, hexbm, wire = base(ctx, kk)
    if cid != 'packaged' or e2 != enc or hexbm:
        wire = ref.encode({'MTI': '1240', 'DE2': '4444555566667777', 'DE4': 1234, 'DE12': datetime.datetime(2024, 3, 10, 2, 30, 0),
                           'DE48': '0023003ABC', 'DE55': bytes.fromhex('9f2608aabbccddeeff00119f270180')}, cfg, enc)
    L = mutate.layout(wire, cfg, enc, False)
    jobs, good = [], set()
    jobs.append({'op': 'loads', 'data': hx(wire), 'enc': enc})
    good.add(0)
    muts = list(mutate.length_rewrites(wire, L, enc))[:120] + list(mutate.truncations(wire))[:60] + list(mutate.icc_tails(wire, L, cfg, enc))[:40]
    for how, m in muts:
        jobs.append({'op': 'loads', 'data': hx(m), 'enc': enc})
    for blocked in (False, True):
        big = ref.encode({'MTI': '1240', 'DE2': '4444555566667777', 'DE72': 'x' * 999, 'DE111': 'y' * 999, 'DE127': 'z' * 999}, cfg, enc)
        stream = refb.vbs([wire, big, wire])
        data = refb.block(stream) if blocked else stream
        good.add(len(jobs))
        jobs.append({'op': 'read', 'data': hx(data), 'enc': enc, 'blocked': blocked})
        for how, m in muts[::9]:
            s2 = refb.vbs([wire, m, wire])
            jobs.append({'op': 'read', 'data': hx(refb.block(s2) if blocked else s2), 'enc': enc, 'blocked': blocked})
        for cut in (len(data) - 1, len(data) - 5, len(stream) // 2, 4, 3, 1):
            jobs.append({'op': 'read', 'data': hx(data[:cut]), 'enc': enc, 'blocked': blocked})
        good.add(len(jobs))
        jobs.append({'op': 'roundtrip', 'enc': enc, 'blocked': blocked, 'msgs': optchild.jsonable([
            {'MTI': '1240', 'DE2': '4444555566667777', 'DE4': 99, 'DE55': bytes.fromhex('9f2608aabbccddeeff00119f270180')},
            {'MTI': '1240', 'DE72': 'x' * 999, 'DE111': 'y' * 999, 'DE127': 'z' * 999, 'PDS0023': 'ABC'}])})
    if not ctx.tmpdir:
        ctx.tmpdir = tempfile.mkdtemp(prefix='vmon-c07-')
    status, answers, at, done, err = optrun.run(ctx, jobs, case['options'], ctx.tmpdir)
    label = ' '.join(case['options'])
    ctx.case_done(['opt', case['options'], enc], nontrivial=True, enumerated=True, n=len(jobs))
    ctx.seen('interpreter options the decode workload was repeated under', label)
    if status == 'wall':
        ctx.inconclusive_because('interpreter-options child hit the wall-clock watchdog (%s)' % label)
        return
    if status == 'cpu':
        ctx.violation('options:%s:cpu_allowance_used_up' % label, {'case': case, 'job': jobs[at] if at is not None else None})
        return
    for i, job in enumerate(jobs):
        a = answers.get(i)
        ctx.count('calls judged in a child interpreter')
        if a is None:
            ctx.violation('options:%s:child_ended_in_job' % label, {'case': case, 'op': job['op'], 'stderr': err})
            return
        if 'escape' in a:
            ctx.violation('options:%s:%s:escape:%s@%s' % (label, job['op'], a['escape'], a.get('where')),
                          {'case': case, 'job': {k: (v if k != 'msgs' else '...') for k, v in job.items()}})
            return
        if i in good and 'ok' not in a:
            ctx.violation('options:%s:%s:good_input_refused:%s' % (label, job['op'], a.get('lib')), {'case': case, 'job_index': i})
            return


def judge_cpu_guard(ctx, case):
    """Inputs whose decoding may be spent inside C code (pattern matching), where no Python line is executed and the step
    budget sees nothing: decoded in a child process under a CPU-time allowance (see cpuguard.py)."""
    import json
    from .. import env, cpuguard
    enc = case['enc']
    cfg = msgwork.cfg_of('packaged')
    items = []
    for v in de43_shapes():
        try:
            v.encode(enc)
        except UnicodeError:
            continue
        for hexbm in (False, True):
            wire = ref.encode({'MTI': '1240', 'DE2': '4444555566667777', 'DE43': v}, cfg, enc, hexbm)
            items.append({'cfg': 'packaged', 'enc': enc, 'hex': hexbm, 'data': hx(wire), 'de43': v})
    if case.get('only') is not None:
        items = [items[case['only']]]
    if not ctx.tmpdir:
        ctx.tmpdir = tempfile.mkdtemp(prefix='vmon-c07-')
    path = os.path.join(ctx.tmpdir, 'cpu_%s.json' % enc)
    with open(path, 'w') as f:
        json.dump(items, f)
    e = dict(os.environ, PYTHONPATH=env.VERIF_DIR, PYTHONDONTWRITEBYTECODE='1', PYTHONWARNINGS='ignore')
    e.pop('CARDUTIL_CONFIG', None)
    allowance = 60          # CPU seconds for a batch that needs well under one
    status, p = cpuguard.run([env.PYTHON, '-B', '-m', 'vmon.cpuchild', path], env=e, cwd=env.VERIF_DIR, cpu_seconds=allowance)
    ctx.case_done(['cpu_guard', enc], nontrivial=True, enumerated=True, n=len(items))
    lines = p.stdout.split('\n')
    at = [int(ln.split()[1]) for ln in lines if ln.startswith('at ')]
    ctx.count('inputs decoded in a child under a CPU allowance', len([ln for ln in lines if ln.startswith(('ok ', 'lib ', 'escape '))]))
    for ln in lines:
        if ln.startswith('escape '):
            _, idx, name = ln.split()
            ctx.violation('loads:escape:%s@child' % name, {'case': dict(case, only=int(idx)), 'de43': items[int(idx)]['de43']})
    if status == 'wall':
        ctx.inconclusive_because('the CPU-guarded child hit the wall-clock watchdog')
    elif status == 'cpu':
        idx = at[-1] if at else 0
        ctx.violation('loads:cpu_allowance_used_up_inside_one_call', {'case': dict(case, only=idx), 'cpu_seconds': allowance,
                                                                       'de43': items[idx]['de43'], 'inputs_before_it': idx})
    elif 'done' not in lines:
        ctx.inconclusive_because('the CPU-guarded child ended early: %r' % (p.stderr[-300:],))


def judge_process(ctx, case):
    """The real command-line entry points in their own interpreter: exit status and stderr must show no traceback."""
    from .. import env, cpuguard
    k = case['base']
    rng = ctx.rng_global('proc', k)
    enc = ('latin_1', 'cp500')[k % 2]
    blocked = (k // 2) % 2 == 1
    kk = 8 * (k + 3) + (0 if enc == 'latin_1' else 2)
    while kk % 5 == 4:
        kk += 8
    cid, e2, hexbm, wire = base(ctx, kk)
    cfg = msgwork.cfg_of('packaged')
    L = mutate.layout(wire, cfg, enc, False)
    muts = list(mutate.length_rewrites(wire, L, enc))
    how, bad = muts[rng.randrange(len(muts))] if k % 4 != 3 else ('unmutated', wire)
    stream = refb.vbs([wire, bad, wire])
    data = refb.block(stream) if blocked else stream
    if not ctx.tmpdir:
        ctx.tmpdir = tempfile.mkdtemp(prefix='vmon-c07-')
    path = os.path.join(ctx.tmpdir, 'p%d.ipm' % k)
    with open(path, 'wb') as f:
        f.write(data)
    e = dict(os.environ, PYTHONPATH=env.REPO, PYTHONDONTWRITEBYTECODE='1', PYTHONWARNINGS='ignore')
    e.pop('CARDUTIL_CONFIG', None)
    runs = [
        ('mci_ipm_to_csv', ['-c', 'import sys; from cardutil.cli import mci_ipm_to_csv as t; sys.exit(t.cli_entry() or 0)', path,
                            '-o', path + '.csv', '--in-encoding', enc, '--out-encoding', 'utf8'] + ([] if blocked else ['--no1014blocking'])),
        ('mideu extract', ['-c', 'import sys; from cardutil.cli import mideu as t; sys.exit(t.cli_entry() or 0)', 'extract', path,
                           '--csvoutputfile', path + '.2.csv', '-s', 'ascii' if enc == 'latin_1' else 'ebcdic'] + ([] if blocked else ['--no1014blocking'])),
    ]
    ctx.case_done(['process', k])
    for name, args in runs:
        # "stops": decided on the CPU time the command uses (60 s allowed, it needs well under one), never on wall-clock time
        status, p = cpuguard.run([env.PYTHON, '-B'] + args, env=e, cwd=ctx.tmpdir, cpu_seconds=60)
        if status == 'cpu':
            ctx.violation('process:%s:cpu_allowance_used_up' % name, {'case': case, 'how': how, 'cpu_seconds': 60})
            continue
        if status == 'wall':
            ctx.inconclusive_because('command-line process hit the wall-clock watchdog: ' + name)
            continue
        ctx.count('command-line processes run: ' + name)
        ctx.count('command-line exit status %d: %s' % (p.returncode, name))
        if 'Traceback (most recent call last)' in p.stderr:
            last = p.stderr.strip().splitlines()[-1] if p.stderr.strip() else ''
            ctx.violation('process:%s:traceback:%s' % (name, last.split(':')[0][:40]),
                          {'case': case, 'how': how, 'stderr_tail': p.stderr[-400:], 'exit': p.returncode})
        elif how != 'unmutated' and p.returncode not in (0, 1, 255) :
            ctx.violation('process:%s:unexpected_exit_status' % name, {'case': case, 'exit': p.returncode, 'stderr_tail': p.stderr[-300:]})


def run_tools(ctx, fdata, enc, blocked, how):
    if not ctx.tmpdir:
        ctx.tmpdir = tempfile.mkdtemp(prefix='vmon-c07-')
    path = os.path.join(ctx.tmpdir, 'in.ipm')
    with open(path, 'wb') as f:
        f.write(fdata)
    out = os.path.join(ctx.tmpdir, 'out.csv')

    def csv_tool():
        return ctx.tool_csv.cli_run(in_filename=path, out_filename=out, in_encoding=enc, out_encoding='utf8',
                                    no1014blocking=not blocked, config_file=None, debug=False)

    def mideu_tool():
        return ctx.tool_mideu.cli_run(func=ctx.tool_mideu.extract, input=path, csvoutputfile=out,
                                      sourceformat='ascii' if enc == 'latin_1' else 'ebcdic', no1014blocking=not blocked,
                                      loglevel=logging.WARNING)
    def convert_tool():
        return ctx.tool_mideu.cli_run(func=ctx.tool_mideu.convert, input=path,
                                      sourceformat='ascii' if enc == 'latin_1' else 'ebcdic', no1014blocking=not blocked,
                                      loglevel=logging.WARNING)
    def paramconv_tool():
        with contextlib.redirect_stdout(io.StringIO()):
            return ctx.tool_paramconv.cli_run(input=path, output=os.path.join(ctx.tmpdir, 'out.bin'),
                                              sourceformat='ascii' if enc == 'latin_1' else 'ebcdic', no1014blocking=not blocked,
                                              loglevel=logging.WARNING)
    for name, fn in (('mci_ipm_to_csv', csv_tool), ('mideu extract', mideu_tool), ('mideu convert', convert_tool),
                     ('paramconv', paramconv_tool)):
        kind, val = ctx.call(fn, budget=sentinel.budget_for(len(fdata)) * 3 + 200000)
        ctx.count('tool runs: ' + name)
        if kind == 'ok':
            ctx.count('tool %s returned %r' % (name, val))
        elif kind == 'steps':
            ctx.violation('tool:%s:step_budget@%s' % (name, val[1] if val else '?'),
                          {'case': {'kind': 'onefile', 'data': hx(fdata), 'enc': enc, 'blocked': blocked}, 'how': how})
        else:
            ctx.violation('tool:%s:traceback:%s@%s' % (name, type(val).__name__, sentinel.origin(val) or 'outside_cardutil'),
                          {'case': {'kind': 'onefile', 'data': hx(fdata), 'enc': enc, 'blocked': blocked}, 'how': how,
                           'error': repr(val)[:300]})


def canaries(ctx):
    ctx.repo_tests_under_monitors(('C07',))       # second, independent workload for the same oracle
    class Fake(Exception):
        pass
    cls, mech = outcome(ctx, 'exc', ValueError('x'), 'loads')
    ctx.canary('ValueError is an escape', cls == 'escape' and mech.startswith('loads:escape:ValueError'))
    cls, mech = outcome(ctx, 'steps', ('iso8583.py', '_pds_to_dict', 532), 'loads')
    ctx.canary('step budget is a violation', mech == 'loads:step_budget@_pds_to_dict')
    cls, mech = outcome(ctx, 'exc', ctx.iso.Iso8583DataError('x'), 'loads')
    ctx.canary('library error is fine', mech is None)
    cls, mech = outcome(ctx, 'exc', ctx.iso.Iso8583DataError('x'), 'IpmReader')
    ctx.canary('wrong library error from a reader is an escape', mech is not None)
    # the sentinel itself: a loop inside monitored code must trip the budget
    sentinel.arm(50)
    tripped = False
    valid = base(ctx, 0)
    try:
        for _ in range(1000):
            ctx.iso.loads(valid[3], encoding=valid[1], iso_config=msgwork.cfg_of(valid[0]), hex_bitmap=valid[2])
    except sentinel.StepBudgetExceeded:
        tripped = True
    finally:
        sentinel.disarm()
    ctx.canary('step budget trips inside cardutil code', tripped)
    cid, enc, hexbm, data = base(ctx, 0)
    L = mutate.layout(data, msgwork.cfg_of(cid), enc, hexbm)
    spelled = [how for how, _ in mutate.length_rewrites(data, L, enc) if 'pds_sublength' in how and "'-07'" in how]
    ctx.canary('negative PDS sub-length spellings are generated', bool(spelled) and len(L.pds_len) >= 6)


def require(m):
    reasons = []
    c = m['counters']
    for fam in tuple(f for f in FAMILIES if f != 'hex_bitmap_spellings') + ('random',):
        if not c.get('mutants from family ' + fam):
            reasons.append('mutation family never ran: ' + fam)
    for need in ('loads outcome: returned', 'loads outcome: library_error'):
        if not c.get(need):
            reasons.append('never observed: ' + need)
    if len(set(m['classes'].get('interpreter options the decode workload was repeated under', ()))) < 4 and not m['violations']:
        reasons.append('decode workload not repeated under all interpreter options')
    if c.get('inputs decoded in a child under a CPU allowance', 0) < 100 and not m['violations']:
        reasons.append('fewer than 100 inputs decoded in the CPU-guarded child')
    if not c.get('tool runs: mci_ipm_to_csv') or not c.get('tool runs: mideu extract'):
        reasons.append('tools never run')
    if not c.get('command-line processes run: mci_ipm_to_csv') or not c.get('command-line processes run: mideu extract'):
        reasons.append('command-line processes never run')
    if not c.get('valid but awkward files run through the tools: carriers_full_after_sorting'):
        reasons.append('awkward-but-valid files never run through the tools')
    if not c.get('scaling measurements'):
        reasons.append('scaling never measured')
    if not c.get('IpmReader file iterations'):
        reasons.append('readers never run on mutated files')
    return reasons
