"""C12 - PDS sub-elements are packed into carrier elements and recovered without loss."""
import copy
import random

from .. import gen, msgwork
from ..core import hx
from ..ref import codec as ref

ID = 'C12'
LEVEL = 'exploration'
ANCHORS = ('_pds_to_de', '_dict_to_iso8583', '_pds_to_dict')
RULE = ('case = (configuration, codec, PDS set, other elements). The carrier values inside the real encoder output (read by '
        'the reference decoder) must equal the reference greedy packing (ascending tags, <= 999 characters per carrier, no '
        'element split, carriers in ascending element order) and the real decoder must return exactly the same PDSxxxx set. '
        'Boundary sweep enumerated: first value length 940..992 x second 0..60 x third {absent,0,1,30}. Distinct by digest '
        '(sweep: by construction). Non-trivial: at least one PDS entry.')
ASSUMPTIONS = ['vmon/ref/codec.py pack_pds and lenient decoder', 'PDS sets fit the configured carriers (otherwise outside the statement)']


def prepare(ctx):
    from cardutil import iso8583
    from cardutil.config import config
    ctx.iso = iso8583
    msgwork.set_packaged(config['bit_config'])


def val(n, style, seed):
    if style == 'digits_like_header':
        s = ('%04d%03d' % (seed % 10000, n % 1000)) * (n // 7 + 1)
        return s[:n]
    base = 'ABCDEFGHIJ' if style == 'alpha' else 'x1 Y2-'
    return (base * (n // len(base) + 1))[:n]


def cases(ctx):
    i = 0
    n_sweep = 0
    for a in range(940, 993):
        for b in range(0, 61):
            for third in (None, 0, 1, 30):
                i += 1
                n_sweep += 1
                if ctx.mine(i):
                    lens = [a, b] + ([] if third is None else [third])
                    yield {'kind': 'sweep', 'cfg': 'packaged', 'enc': 'cp500' if (a + b) % 2 else 'latin_1',
                           'tags': [5 + 10 * k for k in range(len(lens))], 'lens': lens,
                           'style': ('alpha', 'digits_like_header', 'mixed')[(a + b) % 3]}
    if ctx.shard == 0:
        ctx.exhaustive_subspace('boundary sweep: first length 940..992 x second 0..60 x third {-,0,1,30}', n_sweep)
    # exact fills and carrier counts
    special = [
        [492, 493], [985], [992], [992, 0], [0, 992], [0, 0, 0], [0], [985, 0], [984, 0, 0], [978, 7], [978, 6], [978, 8],
        [992] * 5, [992, 992, 992, 992, 985], [492, 493] * 5, [300] * 16, [0] * 140, [1] * 120, [992, 0, 992, 0, 992],
        [500, 492], [500, 485], [500, 486], [100] * 9 + [29], [100] * 9 + [30], [100] * 9 + [31],
        [0] * 124, [0] * 125, [0] * 142, [0] * 143, [1] * 124, [0, 1] * 66, [0] * 300,
    ]
    for k, lens in enumerate(special):
        for enc in ('latin_1', 'cp500'):
            for style in ('alpha', 'digits_like_header'):
                i += 1
                if ctx.mine(i):
                    yield {'kind': 'special', 'cfg': 'packaged', 'enc': enc, 'lens': lens, 'style': style,
                           'tags': [(0 if k % 2 else 1) + 3 * j + (k if j else 0) for j in range(len(lens))]}
    # seeded sets, packaged and generated configurations with other carrier bits
    rng = ctx.rng('sets')
    cids = msgwork.config_ids(ctx, 12 if ctx.tier == 'quick' else 60, 0)
    cids = [c for c in cids if ref.carriers_of(msgwork.cfg_of(c))]
    for j in range((3000 if ctx.tier == 'quick' else 120000) // ctx.nshards + 1):
        cid = rng.choice(cids)
        cfg = msgwork.cfg_of(cid)
        enc = rng.choice(['latin_1', 'cp500', 'cp037', 'ascii'])
        ncar = len(ref.carriers_of(cfg))
        items = gen.gen_pds_items(rng, enc, ncar, rng.choice([None, 1, min(2, ncar), ncar]))
        others = {}
        if rng.random() < 0.5:
            plain = [b for b in gen.data_bits(cfg) if b not in ref.carriers_of(cfg)]
            m = gen.gen_message(rng, cfg, enc, subset=rng.sample(plain, min(len(plain), rng.randint(1, 5))), pds_mode='none')
            others = {k: v for k, v in m.items() if k != 'MTI'}
        yield {'kind': 'seeded', 'cfg': cid, 'enc': enc, 'items': items, 'others': gen.jsonable(others)}


def judge(ctx, case):
    key = sum(case.get('lens') or [len(v) for v in dict(case.get('items') or {}).values()])
    if case['cfg'] == 'packaged' and key % 9 == 4:
        # the packaged configuration itself (the object the library uses when none is given), adjusted by the application
        # after everything was imported: DE62 stops being a carrier.  Restored afterwards.
        from cardutil.config import config as live
        entry = live['bit_config']['62']
        saved = entry.pop('field_processor', None)
        ctx.count('sets packed under the live packaged configuration after it was adjusted')
        try:
            return judge_inner(ctx, case, live['bit_config'])
        finally:
            if saved is not None:
                entry['field_processor'] = saved
    return judge_inner(ctx, case)


def judge_inner(ctx, case, forced_cfg=None):
    iso = ctx.iso
    cfg = forced_cfg if forced_cfg is not None else msgwork.cfg_of(case['cfg'])
    enc = case['enc']
    if case['kind'] == 'seeded':
        items = dict(case['items'])
        others = gen.unjsonable(case['others'])
    else:
        items = {'PDS%04d' % t: val(n, case['style'] if case['style'] != 'mixed' else 'x', t) for t, n in zip(case['tags'], case['lens'])}
        others = {}
    order = list(items)
    random.Random(len(order) * 7919 + sum(len(v) for v in items.values())).shuffle(order)   # insertion order must not matter
    msg = dict(others, MTI='1240')
    for k in order:
        msg[k] = items[k]
    if order != sorted(order):
        ctx.count('sets supplied in non-ascending insertion order')
    # configuration objects come and go, and get edited, in real programs: one case in four works on a throwaway copy
    # (its id may be that of an earlier, dead one), one in eight on a copy that was used once and then had one of its
    # carriers moved to another element - whatever the library remembered about the object is stale then
    mode = (len(order) * 5 + sum(len(v) for v in items.values())) % 8
    if forced_cfg is not None:
        mode = 0
    if mode in (1, 2, 5):
        cfg = copy.deepcopy(cfg)
        ctx.count('sets packed under a throwaway copy of the configuration')
    if mode == 2 and ref.carriers_of(cfg):
        spare = [b for b in gen.data_bits(cfg) if cfg[str(b)]['field_type'] == 'LLLVAR' and not cfg[str(b)].get('field_processor')
                 and gen.is_text(cfg[str(b)]) and 'DE%d' % b not in msg]
        if spare:
            ctx.call(iso.dumps, {'MTI': '1240', 'PDS0001': 'x'}, encoding=enc, iso_config=cfg, budget=600000)
            old = ref.carriers_of(cfg)[-1 if mode_pick(items) else 0]
            new = spare[len(items) % len(spare)]
            del cfg[str(old)]['field_processor']
            cfg[str(new)]['field_processor'] = 'PDS'
            ctx.count('sets packed after a carrier was moved in an already used configuration object')
    car = ref.carriers_of(cfg)
    want = ref.pack_pds([(int(k[3:]), v) for k, v in items.items()])
    if len(want) > len(car):
        ctx.case_done(case, nontrivial=False)
        return
    ctx.case_done(case, nontrivial=bool(items), enumerated=False)
    ctx.seen('carriers needed', len(want))
    for w in want:
        if len(w) >= 990:
            ctx.seen('carrier fill levels >= 990', len(w))
    if 'PDS0000' in items:
        ctx.count('sets containing tag 0000')
    if any(len(v) == 0 for v in items.values()):
        ctx.count('sets with a zero-length value')
    handed = dict(msg)
    kind, data = ctx.call(iso.dumps, handed, encoding=enc, iso_config=cfg, budget=600000)
    ctx.count('dumps calls')
    if kind != 'ok':
        ctx.violation('pack:%s' % ('step_budget' if kind == 'steps' else 'exception:' + type(data).__name__),
                      {'case': case, 'error': repr(data)})
        return
    try:
        seen, _, _, _ = ref.decode_lenient(data, cfg, enc)
    except ref.Reject as ex:
        ctx.violation('pack:wire_unreadable_by_reference', {'case': case, 'reason': ex.reason, 'wire': hx(data)[:300]})
        return
    got = [seen.get('DE%d' % b) for b in car if seen.get('DE%d' % b) not in (None, '')]
    got_bits = [b for b in car if seen.get('DE%d' % b) not in (None, '')]
    if got != want:
        if sorted(''.join(got)) == sorted(''.join(want)) and len(got) != len(want):
            mech = 'pack:carrier_boundary_differs'
        elif any(len(g) > 999 for g in got):
            mech = 'pack:carrier_over_999'
        else:
            mech = 'pack:carrier_content_differs'
        ctx.violation(mech, {'case': case, 'got_lens': [len(g) for g in got], 'want_lens': [len(w) for w in want]})
        return
    if got_bits != car[:len(want)]:
        ctx.violation('pack:carriers_not_in_ascending_element_order', {'case': case, 'used': got_bits, 'configured': car})
        return
    # the same dict object handed to dumps a second time (the same message written to a second file): dumps has left the
    # packed carriers in it - they are rebuilt from the same set, so the bytes are the same
    kind, again = ctx.call(iso.dumps, handed, encoding=enc, iso_config=cfg, budget=600000)
    ctx.count('dicts handed to dumps a second time')
    if kind != 'ok' or again != data:
        ctx.violation('pack:second_dumps_of_the_same_dict_differs', {'case': case, 'first_len': len(data),
                                                                     'second': repr(again)[:120] if kind != 'ok' else len(again)})
        return
    kind, back = ctx.call(iso.loads, data, encoding=enc, iso_config=cfg, budget=600000 + 100 * len(data))
    ctx.count('loads calls')
    if kind != 'ok':
        ctx.violation('unpack:%s' % ('step_budget' if kind == 'steps' else 'exception:' + type(back).__name__),
                      {'case': case, 'error': repr(back)})
        return
    got_pds = {k: v for k, v in back.items() if k.startswith('PDS')}
    if got_pds != items:
        lost = sorted(set(items) - set(got_pds))
        extra = sorted(set(got_pds) - set(items))
        changed = sorted(k for k in items if k in got_pds and got_pds[k] != items[k])
        mech = 'unpack:entries_lost' if lost else 'unpack:entries_invented' if extra else 'unpack:values_changed'
        ctx.violation(mech, {'case': case, 'lost': lost[:5], 'extra': extra[:5], 'changed': changed[:5]})
        return
    if len(ctx.samples) < 5 and (case['kind'] != 'sweep' or case['lens'][0] in (985, 992)):
        ctx.sample({'kind': case['kind'], 'cfg': case['cfg'], 'enc': enc, 'value_lengths': [len(v) for v in items.values()][:12],
                    'carrier_lengths': [len(w) for w in want], 'carriers': car[:len(want)]})


def mode_pick(items):
    return sum(len(k) + len(v) for k, v in items.items()) % 2


def canaries(ctx):
    ctx.canary('threshold is > 999 not >= 999', [len(x) for x in ref.pack_pds([(1, 'a' * 492), (2, 'b' * 493)])] == [999])
    ctx.canary('1000 characters split', [len(x) for x in ref.pack_pds([(1, 'a' * 492), (2, 'b' * 494)])] == [499, 501])
    ctx.canary('ascending tags', ref.pack_pds([(9, 'z'), (2, 'a')]) == ['0002001a0009001z'])
    ctx.canary('empty value keeps header', ref.pack_pds([(7, '')]) == ['0007000'])
    ctx.canary('walker steps over empty values', ref.pds_entries('00070000008001x') == {'PDS0007': '', 'PDS0008': 'x'})


def require(m):
    reasons = []
    if set(m['classes'].get('carriers needed', ())) < {1, 2, 3, 4, 5}:
        reasons.append('sets needing exactly 1..5 carriers not all driven: %s' % sorted(m['classes'].get('carriers needed', ())))
    if 999 not in set(m['classes'].get('carrier fill levels >= 990', ())):
        reasons.append('no carrier was filled to exactly 999')
    if not m['counters'].get('sets supplied in non-ascending insertion order'):
        reasons.append('no PDS set was supplied out of order')
    if not m['counters'].get('sets packed after a carrier was moved in an already used configuration object') and not m['violations']:
        reasons.append('no set packed after a carrier was moved in a used configuration object')
    if not m['counters'].get('sets packed under the live packaged configuration after it was adjusted') and not m['violations']:
        reasons.append('live packaged configuration never adjusted')
    if not m['counters'].get('sets containing tag 0000'):
        reasons.append('tag 0000 never used')
    if not m['counters'].get('sets with a zero-length value'):
        reasons.append('no zero-length value driven')
    return reasons
