"""C19 - encoding/format conversion tools preserve every record and are reversible."""
import io
import logging
import os
import shutil
import tempfile

from .. import gen, msgwork
from ..core import hx
from ..ref import blocking as refb
from ..ref import codec as ref
from .c06 import gen_list

ID = 'C19'
LEVEL = 'exploration'
ANCHORS = ('mci_ipm_encode', 'get_config', 'convert', 'mci_ipm_param_encode', 'cli_run')
RULE = ('case = (tool, entry point, message list or arbitrary-byte parameter records, encoding A -> B, input format, output '
        'format). The input file is written by the real IpmWriter / VbsWriter. The converted file\'s records, read by the real '
        'reader under B and by the reference decoder, must equal the input records read under A (count, order, values, DE55 '
        'bytes); converting back to A with the original format must reproduce the input file byte for byte. Distinct by '
        'digest. Non-trivial: at least one record.')
ASSUMPTIONS = ['latin_1, cp500 and cp037 are bijections on the 256 Latin-1 code points (checked at run time)',
               'vmon/ref/codec.py strict decoder, vmon/ref/blocking.py', 'PDS data are supplied as PDSxxxx entries or as one '
               'library-packed carrier (the legacy converter re-packs PDS data with the default configuration)']
CODECS = ('latin_1', 'cp500', 'cp037')


def prepare(ctx):
    ctx.online_wanted = ('C02', 'C03', 'C04', 'C05', 'C08', 'C09')
    from cardutil import mciipm
    from cardutil.config import config
    from cardutil.cli import mci_ipm_encode, mideu, mci_ipm_param_encode, paramconv
    ctx.mciipm = mciipm
    ctx.t_encode, ctx.t_mideu, ctx.t_pencode, ctx.t_paramconv = mci_ipm_encode, mideu, mci_ipm_param_encode, paramconv
    msgwork.set_packaged(config['bit_config'])
    ctx.tmpdir = tempfile.mkdtemp(prefix='vmon-c19-')


def finish(ctx):
    shutil.rmtree(ctx.tmpdir, ignore_errors=True)


def cases(ctx):
    rng = ctx.rng('cases')
    quick = ctx.tier == 'quick'
    i = 0
    reps = 12 if quick else 150
    for rep in range(reps):
        for a in CODECS:
            for b in CODECS:
                for fin in ('vbs', '1014'):
                    for fout in ('vbs', '1014'):
                        if a == b and (fin == fout or rep % 3):
                            continue     # same encoding both sides: a pure change of layout (one repetition in three)
                        for tool in ('mci_ipm_encode', 'mci_ipm_param_encode'):
                            i += 1
                            if ctx.mine(i):
                                yield {'tool': tool, 'a': a, 'b': b, 'fin': fin, 'fout': fout, 'salt': rng.randint(0, 10 ** 9),
                                       'entry': ('function', 'cli_run', 'parser')[(rep + i) % 3], 'no_o': bool((i // 3) % 2)}
        for direction in ('ebcdic', 'ascii'):
            for blocked in (True, False):
                for tool in ('mideu convert', 'paramconv'):
                    i += 1
                    if ctx.mine(i):
                        yield {'tool': tool, 'direction': direction, 'blocked': blocked, 'salt': rng.randint(0, 10 ** 9),
                               'entry': ('function', 'cli_run', 'parser')[(rep + i) % 3], 'no_o': bool((i // 3) % 2)}
    # inputs of more than 1 MiB (buffering thresholds) and the tools' documented default arguments
    for tool in ('mci_ipm_encode', 'mci_ipm_param_encode', 'mideu convert', 'paramconv'):
        i += 1
        if ctx.mine(i):
            c = {'tool': tool, 'salt': 4242 + ctx.seed, 'entry': 'cli_run' if tool in ('mideu convert', 'paramconv') else 'function', 'big': True}
            if tool in ('mideu convert', 'paramconv'):
                c.update(direction='ebcdic', blocked=True)
            else:
                c.update(a='cp500', b='latin_1', fin='1014', fout='1014')
            yield c
    # output name left to the tool (documented: input name + '.out'), input names with and without extensions
    for tool in ('mci_ipm_encode', 'mci_ipm_param_encode'):
        for ext in ('', '.ipm', '.out', '.bin.out'):
            i += 1
            if ctx.mine(i):
                yield {'tool': tool, 'a': 'latin_1', 'b': 'cp500', 'fin': '1014', 'fout': 'vbs', 'entry': 'cli_run', 'salt': rng.randint(0, 10 ** 9),
                       'derived_output': True, 'ext': ext}
    for entry in ('function', 'cli_run'):
        for rep in range(2 if quick else 10):
            i += 1
            if ctx.mine(i):
                yield {'tool': 'mci_ipm_encode', 'a': 'cp500', 'b': 'latin_1', 'fin': '1014', 'fout': '1014', 'entry': entry,
                       'salt': rng.randint(0, 10 ** 9), 'defaults': True}
    if ctx.shard == 0:
        ctx.exhaustive_subspace('6 ordered codec pairs x {vbs,1014}^2 x 2 new tools; 2 directions x {blocked,unblocked} x 2 legacy tools', 48 + 8)


def messages(ctx, rng, enc, legacy, big=False):
    cfg = msgwork.cfg_of('packaged')
    out = []
    if big:
        lll = [54, 72, 111, 127]
        for k in range(300):
            x = gen.gen_message(rng, cfg, enc, subset=lll + [2, 3, 4, 12], pds_mode='none', lengths={b: rng.randint(960, 999) for b in lll})
            if k % 4 == 0:
                x.update(gen.gen_pds_items(rng, enc, 2, 1))
            out.append(x)
        return out
    for _ in range(rng.choice([1, 2, 5, 12, 30])):
        for attempt in range(6):
            mode = rng.choice(['keys', 'keys', 'none', 'raw1']) if legacy else rng.choice(['keys', 'raw', 'none'])
            plain = [b for b in gen.data_bits(cfg) if b not in ref.carriers_of(cfg)]
            subset = rng.sample(plain, rng.randint(1, len(plain)))
            if mode == 'raw':
                subset += rng.sample(ref.carriers_of(cfg), rng.randint(1, 3))
            elif mode == 'raw1':
                subset += [48]
            m = gen.gen_message(rng, cfg, enc, subset=subset, pds_mode='raw' if mode.startswith('raw') else mode)
            try:
                if len(ref.encode(m, cfg, enc)) <= 6000:
                    out.append(m)
                    break
            except ref.RefError:
                continue
    return out


def write_ipm(ctx, msgs, enc, blocked):
    f = io.BytesIO()
    with ctx.mciipm.IpmWriter(f, encoding=enc, blocked=blocked) as w:
        for x in msgs:
            w.write(dict(x))
    return f.getvalue()


def raw_records(data, blocked):
    P = refb.payload_stream(data) if blocked else data
    recs, ending = refb.vbs_records_in(P)
    return recs, ending


def run_tool(ctx, case, tool, data, a, b, fin, fout, tag):
    """Convert `data` (encoding a, format fin) to encoding b, format fout with the named tool.  Returns (kind, bytes)."""
    entry = case['entry']
    src = os.path.join(ctx.tmpdir, 'in_%s.bin' % tag)
    dst = os.path.join(ctx.tmpdir, 'out_%s.bin' % tag)
    if case.get('derived_output') and tag == 'fwd':
        src = os.path.join(ctx.tmpdir, 'named_in' + case['ext'])
        dst = src + '.out'
        if os.path.exists(dst):
            os.unlink(dst)

    def body():
        if tool in ('mci_ipm_encode', 'mci_ipm_param_encode'):
            mod = ctx.t_encode if tool == 'mci_ipm_encode' else ctx.t_pencode
            fn = getattr(mod, tool)
            use_defaults = case.get('defaults') and tag == 'fwd'
            if entry == 'function':
                out = io.BytesIO()
                if use_defaults:
                    fn(io.BytesIO(data), out_file=out)           # documented defaults: cp500 -> latin_1, 1014 -> 1014
                else:
                    fn(io.BytesIO(data), out_file=out, in_encoding=a, out_encoding=b, in_format=fin, out_format=fout)
                return out.getvalue()
            with open(src, 'wb') as f:
                f.write(data)
            if case.get('derived_output') and tag == 'fwd':
                mod.cli_run(in_filename=src, in_encoding=a, out_encoding=b, in_format=fin, out_format=fout, no1014blocking=False, debug=False)
                with open(src, 'rb') as f:
                    if f.read() != data:
                        raise RuntimeError('the tool modified its input file %s' % os.path.basename(src))
            elif entry == 'parser':
                # through the tool's own argument parser, the way the console script runs; --no1014blocking is the documented
                # shorthand for vbs in and out
                argv = [src, '--in-encoding', a, '--out-encoding', b]
                if not case.get('no_o'):
                    argv += ['-o', dst]
                else:                      # no -o: the documented output name is the input name + '.out'
                    ctx.count('parser route without -o: %s' % tool)
                    if os.path.exists(src + '.out'):
                        os.unlink(src + '.out')
                argv += ['--no1014blocking'] if (fin, fout) == ('vbs', 'vbs') else ['--in-format', fin, '--out-format', fout]
                mod.cli_run(**vars(mod.cli_parser().parse_args(argv)))
                if '-o' not in argv:
                    with open(src + '.out', 'rb') as f:
                        return f.read()
            elif use_defaults:
                mod.cli_run(in_filename=src, out_filename=dst)
            else:
                mod.cli_run(in_filename=src, out_filename=dst, in_encoding=a, out_encoding=b, in_format=fin, out_format=fout,
                            no1014blocking=False, debug=False)
            with open(dst, 'rb') as f:
                return f.read()
        blocked = fin == '1014'
        sourceformat = 'ebcdic' if a == 'cp500' else 'ascii'
        with open(src, 'wb') as f:
            f.write(data)
        if entry == 'parser' and tool == 'mideu convert':
            ctx.t_mideu.cli_entry(['convert', src, '-s', sourceformat] + ([] if blocked else ['--no1014blocking']))
            with open(src + '.out', 'rb') as f:
                return f.read()
        if entry == 'parser' and tool == 'paramconv':
            if not case.get('no_o'):
                ctx.t_paramconv.cli_entry([src, '-o', dst, '-s', sourceformat] + ([] if blocked else ['--no1014blocking']))
                with open(dst, 'rb') as f:
                    return f.read()
            ctx.count('parser route without -o: %s' % tool)    # the way the command is documented: paramconv FILE
            if os.path.exists(src + '.out'):
                os.unlink(src + '.out')
            ctx.t_paramconv.cli_entry([src, '-s', sourceformat] + ([] if blocked else ['--no1014blocking']))
            with open(src + '.out', 'rb') as f:
                return f.read()
        if tool == 'mideu convert':
            if entry == 'function':
                ctx.t_mideu.convert(config={}, input=src, sourceformat=sourceformat, no1014blocking=not blocked)
            else:
                ctx.t_mideu.cli_run(func=ctx.t_mideu.convert, input=src, sourceformat=sourceformat, no1014blocking=not blocked,
                                    loglevel=logging.WARNING)
            with open(src + '.out', 'rb') as f:
                return f.read()
        if entry == 'function':
            out = io.BytesIO()
            ctx.t_paramconv.mci_ipm_param_encode(io.BytesIO(data), out_file=out, in_encoding=a,
                                                 out_encoding='latin1' if b == 'latin_1' else b, blocked=blocked)
            return out.getvalue()
        ctx.t_paramconv.cli_run(input=src, output=dst, sourceformat=sourceformat, no1014blocking=not blocked, loglevel=logging.WARNING)
        with open(dst, 'rb') as f:
            return f.read()
    return ctx.call(body, budget=30000000)


def judge(ctx, case):
    tool = case['tool']
    rng = ctx.rng_global('c19', case['salt'])
    legacy = tool in ('mideu convert', 'paramconv')
    if legacy:
        a, b = ('cp500', 'latin_1') if case['direction'] == 'ebcdic' else ('latin_1', 'cp500')
        fin = fout = '1014' if case['blocked'] else 'vbs'
    else:
        a, b, fin, fout = case['a'], case['b'], case['fin'], case['fout']
    ctx.case_done(case)
    ctx.seen('tools/entries', '%s/%s' % (tool, case['entry']))
    ctx.seen('codec pairs', '%s->%s' % (a, b))
    if a == b and fin != fout:
        ctx.count('layout-only conversions (same encoding both sides)')
    ctx.seen('format pairs', '%s->%s' % (fin, fout))
    cfg = msgwork.cfg_of('packaged')
    is_param = tool in ('mci_ipm_param_encode', 'paramconv')
    if is_param:
        if case.get('big'):
            recs_a = [rng.randbytes(246 + (k % 7)) for k in range(5000)]
            ctx.count('conversions of inputs over 1 MiB')
        elif fin == 'vbs' and case['salt'] % 3 == 0:
            # blank-padded rows, the way real parameter files look: the unblocked file then carries x'40' x'40' exactly where
            # a 1014-blocked file has its fill bytes (offsets 1012-1013, 2026-2027) - it is still an unblocked file
            recs_a = [bytearray(rng.choice(b'\x40\x40\x40\x40\x40\xc1\xf0\x4b') for _ in range(246)) for _ in range(rng.choice([11, 14, 40]))]
            for off in (1012, 1013, 2026, 2027):
                recs_a[off // 250][off % 250 - 4] = 0x40
            recs_a = [bytes(r) for r in recs_a]
            ctx.count('unblocked parameter files with fill-valued bytes where a blocked file has its fill')
        else:
            recs_a = [bytes(rng.randrange(256) for _ in range(rng.choice([1, 5, 80, 246, 1012, rng.randint(1, 3000)])))
                      for _ in range(rng.choice([1, 3, 10, 40]))]
        f = io.BytesIO()
        with ctx.mciipm.VbsWriter(f, blocked=fin == '1014') as w:
            w.write_many(recs_a)
        original = f.getvalue()
        expect_b = [r.decode(a).encode(b) for r in recs_a]
    else:
        msgs = messages(ctx, rng, a, legacy, case.get('big'))
        if fin == 'vbs' and a in ('cp500', 'cp037') and case['salt'] % 3 == 0 and not case.get('big'):
            # blank-filled text elements, the way real EBCDIC files look: the unblocked file then carries x'40' x'40' exactly
            # where a 1014-blocked file has its fill bytes (offsets 1012-1013, 2026-2027) - it is still an unblocked file
            msgs.insert(0, {'MTI': '1240', 'DE2': '4444555566667777', 'DE54': ' ' * 990, 'DE72': 'A' + ' ' * 997 + 'Z',
                            'DE111': ' ' * 999, 'DE127': ' ' * 600 + 'END'})
            ctx.count('unblocked EBCDIC message files with blanks where a blocked file has its fill')
        if case.get('big'):
            ctx.count('conversions of inputs over 1 MiB')
        if case.get('defaults'):
            ctx.count('conversions run with the documented default arguments')
        if any('DE55' in x for x in msgs):
            ctx.count('files with binary ICC data')
        if any(k.startswith('PDS') for x in msgs for k in x):
            ctx.count('files with PDS entries')
        k0, original = ctx.call(write_ipm, ctx, msgs, a, fin == '1014', budget=30000000)
        if k0 != 'ok':
            ctx.inconclusive_because('writer failed while building a C19 input: %r' % (original,))
            return
        recs_a, _ = raw_records(original, fin == '1014')
        expect_dicts = [ref.decode_strict(r, cfg, a) for r in recs_a]
    kind, converted = run_tool(ctx, case, tool, original, a, b, fin, fout, 'fwd')
    ctx.count('tool runs: ' + tool)
    if kind != 'ok':
        ctx.violation('convert:%s:%s' % (tool, 'step_budget' if kind == 'steps' else 'exception:' + type(converted).__name__),
                      {'case': case, 'error': repr(converted)[:300]})
        return
    out_blocked = fout == '1014'
    if out_blocked and refb.well_blocked(converted) is not None:
        ctx.violation('convert:%s:output_not_1014_blocked' % tool, {'case': case, 'len': len(converted)})
        return
    recs_b, ending = raw_records(converted, out_blocked)
    detail = {'case': case, 'records_in': len(recs_a), 'records_out': len(recs_b), 'in_len': len(original), 'out_len': len(converted)}
    if len(recs_b) != len(recs_a) or ending != 'end':
        ctx.violation('convert:%s:record_count_or_framing' % tool, dict(detail, ending=ending))
        return
    if is_param:
        if recs_b != expect_b:
            idx = next(i for i, (x, y) in enumerate(zip(recs_b, expect_b)) if x != y)
            ctx.violation('convert:%s:record_bytes_not_transcoded' % tool, dict(detail, index=idx, got=hx(recs_b[idx])[:80], want=hx(expect_b[idx])[:80]))
            return
    else:
        def read_b():
            return list(ctx.mciipm.IpmReader(io.BytesIO(converted), encoding=b, blocked=out_blocked))
        k2, got = ctx.call(read_b, budget=30000000)
        if k2 != 'ok':
            ctx.violation('convert:%s:output_unreadable:%s' % (tool, type(got).__name__), dict(detail, error=repr(got)[:300]))
            return
        for idx, (g, rb, want) in enumerate(zip(got, recs_b, expect_dicts)):
            try:
                refd = ref.decode_strict(rb, cfg, b)
            except ref.Reject as ex:
                ctx.violation('convert:%s:output_record_malformed' % tool, dict(detail, index=idx, reason=ex.reason))
                return
            for name, d in (('real_reader', g), ('reference_decoder', refd)):
                if d != want:
                    keys = sorted(k for k in set(d) | set(want) if d.get(k, '<absent>') != want.get(k, '<absent>'))
                    kc = 'DE55_binary' if 'DE55' in keys else 'PDS' if any(k.startswith('PDS') or k in ('DE48', 'DE62', 'DE123', 'DE124', 'DE125') for k in keys) else 'text_or_typed'
                    ctx.violation('convert:%s:record_values_changed:%s' % (tool, kc),
                                  dict(detail, index=idx, seen_by=name, keys=keys[:6], got=repr({k: d.get(k) for k in keys[:2]})[:300],
                                       want=repr({k: want.get(k) for k in keys[:2]})[:300]))
                    return
    # and back
    kind, back = run_tool(ctx, case, tool, converted, b, a, fout, fin, 'back')
    if kind != 'ok':
        ctx.violation('convert_back:%s:%s' % (tool, 'step_budget' if kind == 'steps' else 'exception:' + type(back).__name__),
                      {'case': case, 'error': repr(back)[:300]})
        return
    if back != original:
        fd = next((i for i, (x, y) in enumerate(zip(back, original)) if x != y), min(len(back), len(original)))
        ctx.violation('convert_back:%s:not_byte_identical' % tool, dict(detail, back_len=len(back), first_diff=fd))
        return
    ctx.count('reversible conversions: ' + tool)
    if len(ctx.samples) < 5:
        ctx.sample(dict(case, a=a, b=b, records=len(recs_a), in_len=len(original), out_len=len(converted)))


def canaries(ctx):
    ok = True
    for c in CODECS:
        tbl = bytes(range(256)).decode(c)
        ok = ok and sorted(tbl) == sorted(bytes(range(256)).decode('latin_1'))
    ctx.canary('the three codecs are bijections on Latin-1', ok)
    ctx.canary('cp500 and cp037 differ (a swapped pair would be visible)', bytes(range(256)).decode('cp500') != bytes(range(256)).decode('cp037'))
    recs = [b'abc', b'\x00\xff']
    ctx.canary('reference reader splits records', raw_records(refb.block(refb.vbs(recs)), True) == (recs, 'end'))


def require(m):
    reasons = []
    te = set(m['classes'].get('tools/entries', ()))
    for tool in ('mci_ipm_encode', 'mci_ipm_param_encode', 'mideu convert', 'paramconv'):
        for entry in ('function', 'cli_run', 'parser'):
            if '%s/%s' % (tool, entry) not in te:
                reasons.append('%s never run through %s' % (tool, entry))
    for tool in ('mci_ipm_encode', 'mci_ipm_param_encode', 'paramconv'):
        if not m['counters'].get('parser route without -o: %s' % tool) and not m['violations']:
            reasons.append('%s never run from its argument parser without -o' % tool)
    if not m['counters'].get('unblocked EBCDIC message files with blanks where a blocked file has its fill') and not m['violations']:
        reasons.append('no blank-aligned unblocked EBCDIC message file')
    if not m['counters'].get('conversions of inputs over 1 MiB'):
        reasons.append('no input over 1 MiB converted')
    if m['counters'].get('unblocked parameter files with fill-valued bytes where a blocked file has its fill', 0) < 3 and not m['violations']:
        reasons.append('fewer than 3 blank-padded unblocked parameter files')
    if not m['counters'].get('conversions run with the documented default arguments'):
        reasons.append('default arguments never used')
    if m['counters'].get('layout-only conversions (same encoding both sides)', 0) < 6 and not m['violations']:
        reasons.append('fewer than 6 layout-only conversions')
    if len(set(m['classes'].get('codec pairs', ()))) < 6:
        reasons.append('not all 6 ordered codec pairs driven')
    if len(set(m['classes'].get('format pairs', ()))) < 4:
        reasons.append('not all 4 format pairs driven')
    if not m['counters'].get('files with binary ICC data') or not m['counters'].get('files with PDS entries'):
        reasons.append('ICC / PDS content never present')
    return reasons
