"""C02 - ISO8583 wire format conforms to the documented layout, in both directions; unrepresentable values are refused."""
import datetime
import decimal

from .. import gen, msgwork
from ..core import hx
from ..ref import codec as ref

ID = 'C02'
LEVEL = 'exploration'
ANCHORS = ('_field_to_iso8583', '_dict_to_iso8583', '_iso8583_to_field', '_pds_to_dict', '_icc_to_dict', '_get_de43_fields',
           '_pytype_to_string', '_string_to_pytype', 'BitArray.tolist', 'BitArray.fromlist', '_pds_to_de', '_get_date_from_string')
RULE = ('case = (configuration, codec, bitmap rendering, message). (1) dumps(m) must equal the reference encoder byte for '
        'byte; (2) loads of the REFERENCE encoding must equal the strict reference decoder key for key (so a symmetric '
        'encode/decode error cannot cancel); (3) a variable-length value longer than its prefix can count must make dumps '
        'raise. Every single bit and every pair of bits of the packaged configuration is enumerated x 2 codecs x 2 bitmaps; '
        'the C01 workload is reused and widened with short fixed text, numbers as decimal strings, dates as ISO strings and '
        'empty/None values. Distinct by digest of the whole case. Non-trivial: at least one data element.')
ASSUMPTIONS = ['vmon/ref/codec.py (validated at setup against the literal wire images in the repository tests and docstrings)',
               'python codecs, re, int(), datetime.strptime', 'fixed values longer than the field, integers wider than the '
               'field, PDS keys together with a carrier value, and a missing MTI are outside the statement (not generated)']


def prepare(ctx):
    from cardutil import iso8583
    from cardutil.config import config
    ctx.iso = iso8583
    msgwork.set_packaged(config['bit_config'])


def widen(rng, msg, cfg):
    """Encode-side spellings that only a layout oracle can judge."""
    out = dict(msg)
    tags = []
    for k in list(out):
        if not k.startswith('DE'):
            continue
        c = cfg[k[2:]]
        v = out[k]
        pt = c.get('field_python_type')
        r = rng.random()
        if pt in ('int', 'long') and r < 0.4:
            out[k] = str(v)
            tags.append('number_as_string')
        elif pt == 'datetime' and r < 0.4 and isinstance(v, datetime.datetime) and v.year >= 1000:
            out[k] = v.strftime('%Y-%m-%d %H:%M:%S')
            tags.append('date_as_iso_string')
        elif pt == 'decimal' and r < 0.25:
            out[k] = str(v)
            tags.append('decimal_as_string')
        elif pt == 'decimal' and r < 0.6:
            # the same kind of number in exponent form: Decimal('12E+3'), a normalised whole number, tiny values, 0E-7
            width = c.get('field_length', 0) or 12
            pick = rng.random()
            if pick < 0.4 and width >= 4:
                out[k] = decimal.Decimal('%dE+%d' % (rng.randint(1, 99), rng.randint(1, max(1, width - 3))))
            elif pick < 0.6:
                out[k] = decimal.Decimal(rng.randint(1, 9) * 10 ** rng.randint(1, max(1, min(6, width - 2)))).normalize()
            elif pick < 0.8 and width >= 10:
                out[k] = decimal.Decimal('%dE-%d' % (rng.randint(1, 9), rng.randint(7, width - 2)))
            elif width >= 10:
                out[k] = decimal.Decimal('0E-%d' % rng.randint(7, width - 2))
            else:
                out[k] = '%d.5E+1' % rng.randint(1, 9)
            tags.append('decimal_in_exponent_form')
        elif pt in (None, 'string') and c['field_type'] == 'FIXED' and isinstance(v, str) and r < 0.3 and len(v) > 1 \
                and not c.get('field_processor'):
            cut = rng.randint(1, len(v) - 1)
            if v[:cut].strip() or True:
                out[k] = v[:cut]
                tags.append('short_fixed_text')
    if rng.random() < 0.15:
        free = [b for b in gen.data_bits(cfg) if 'DE%d' % b not in out]
        if free:
            out['DE%d' % rng.choice(free)] = rng.choice(['', None])
            tags.append('empty_or_none_value')
    return out, tags


def cases(ctx):
    quick = ctx.tier == 'quick'
    cids = msgwork.config_ids(ctx, 4 if quick else 40, 2 if quick else 6)
    encs = msgwork.codecs_for(ctx, 4 if quick else None)
    if ctx.shard == 0:
        for e in encs:
            ctx.seen('codecs used', e)
    yield from msgwork.pair_cases(ctx)
    yield from msgwork.sweep_cases(ctx, cids, encs)
    yield from msgwork.single_cases(ctx, cids, encs)
    rng = ctx.rng('widen')
    for c in msgwork.subset_cases(ctx, cids, encs, 9000 if quick else 400000):
        cfg = msgwork.cfg_of(c['cfg'])
        m, tags = widen(rng, gen.unjsonable(c['msg']), cfg)
        c = dict(c, msg=gen.jsonable(m), widened=tags)
        yield c
    yield from msgwork.edited_config_cases(ctx, cids, encs[:4], 1500 if quick else 30000)
    yield from msgwork.twin_cases(ctx, cids, encs)
    if ctx.shard in (1, 2):
        yield {'class': 'threads', 'threads': 6, 'rounds': 150 if quick else 1500, 'salt': ctx.shard}
    # refusal of unrepresentable values
    i = 0
    for cid in cids[:4]:
        cfg = msgwork.cfg_of(cid)
        for b in gen.data_bits(cfg):
            c = cfg[str(b)]
            w = ref.PREFIX[c['field_type']]
            if not w or not gen.is_text(c):
                continue
            for n in ((100, 101, 150, 999) if w == 2 else (1000, 1001, 5000)):
                for enc in ('latin_1', 'cp500'):
                    i += 1
                    if ctx.mine(i):
                        yield {'class': 'refusal', 'cfg': cid, 'enc': enc, 'hex': bool(n % 2), 'bit': b, 'n': n,
                               'bytes': c.get('field_processor') == 'ICC'}


    # text the chosen encoding cannot express: there are no bytes that are "the text in the chosen encoding", so dumps must not
    # hand any back (a '?' in its place is a different message)
    for cid in cids[:3]:
        cfg = msgwork.cfg_of(cid)
        for b in gen.data_bits(cfg):
            c = cfg[str(b)]
            if not gen.is_text(c) or c.get('field_processor') in ('ICC', 'PDS', 'DE43', 'PAN', 'PAN-PREFIX'):
                continue
            for enc, ch in (('latin_1', '\u0142'), ('cp500', '\u20ac'), ('ascii', '\xe9'), ('cp1252', '\u0416'), ('latin_1', '\U0001f600')):
                i += 1
                if ctx.mine(i):
                    yield {'class': 'unencodable', 'cfg': cid, 'enc': enc, 'hex': bool(i % 2), 'bit': b, 'ch': ch, 'at': i % 3}


def judge_unencodable(ctx, case):
    iso = ctx.iso
    cfg = msgwork.cfg_of(case['cfg'])
    b, enc, ch = case['bit'], case['enc'], case['ch']
    c = cfg[str(b)]
    w = ref.PREFIX[c['field_type']]
    n = c['field_length'] if not w else min(12, 10 ** w - 1)
    if n < 1:
        return
    pos = (0, n // 2, n - 1)[case['at']]
    v = ('A' * n)[:pos] + ch + ('A' * n)[pos + 1:]
    ctx.case_done(case)
    try:
        v.encode(enc)
        return          # the codec can express it after all: nothing to refuse
    except UnicodeError:
        pass
    ctx.count('class:unencodable')
    kind, data = ctx.call(iso.dumps, {'MTI': '1240', 'DE%d' % b: v}, encoding=enc, iso_config=cfg, hex_bitmap=case['hex'], budget=400000)
    ctx.count('dumps calls')
    if kind == 'steps':
        ctx.violation('refusal:step_budget', {'case': case})
    elif kind == 'ok':
        ctx.violation('refusal:text_outside_the_encoding_emitted:%s' % c['field_type'], {'case': case, 'value': v, 'emitted': hx(data)[:160]})
    else:
        ctx.count('text outside the encoding refused with ' + type(data).__name__)


def judge_threads(ctx, case):
    """dumps called from several threads at once: every thread must get the wire image it gets when alone."""
    import sys
    import threading
    iso = ctx.iso
    cfgs = [msgwork.cfg_of(c) for c in ('packaged', ['special', 0])]
    plans = []
    for t in range(case['threads']):
        rng = ctx.rng_global('thr', case['salt'], t)
        cfg = cfgs[t % 2]
        msgs = [gen.gen_message(rng, cfg, 'latin_1' if t % 3 else 'cp500') for _ in range(12)]
        want = []
        for m in msgs:
            try:
                want.append(ref.encode(m, cfg, 'latin_1' if t % 3 else 'cp500', bool(t % 2)))
            except ref.RefError:
                want.append(None)
        plans.append((cfg, 'latin_1' if t % 3 else 'cp500', bool(t % 2), msgs, want))
    bad = []
    order = []
    start = threading.Barrier(case['threads'])

    def worker(t):
        cfg, enc, hexbm, msgs, want = plans[t]
        start.wait()
        for r in range(case['rounds']):
            k = r % len(msgs)
            if want[k] is None:
                continue
            try:
                got = iso.dumps(dict(msgs[k]), encoding=enc, iso_config=cfg, hex_bitmap=hexbm)
            except Exception as ex:  # noqa
                bad.append((t, r, 'exception:' + type(ex).__name__, repr(ex)[:120]))
                return
            order.append(t)
            if got != want[k]:
                bad.append((t, r, 'bytes_differ:' + diff_class(got, want[k], hexbm), hx(got)[:80]))
                return
    old = sys.getswitchinterval()
    sys.setswitchinterval(1e-6)
    try:
        ths = [threading.Thread(target=worker, args=(t,)) for t in range(case['threads'])]
        for th in ths:
            th.start()
        for th in ths:
            th.join(300)
    finally:
        sys.setswitchinterval(old)
    ctx.case_done(['threads', case['salt']])
    ctx.count('dumps calls under threads', len(order))
    ctx.count('thread alternations between consecutive dumps calls', sum(1 for a, b in zip(order, order[1:]) if a != b))
    for t, r, what, detail in bad[:1]:
        ctx.violation('encode_under_threads:' + what, {'case': case, 'thread': t, 'round': r, 'detail': detail})


def judge(ctx, case):
    if case['class'] == 'refusal':
        return judge_refusal(ctx, case)
    if case['class'] == 'unencodable':
        return judge_unencodable(ctx, case)
    if case['class'] == 'threads':
        return judge_threads(ctx, case)
    iso = ctx.iso
    cfg = msgwork.materialise_cfg(ctx, case, iso.dumps, iso.loads)
    msg = gen.unjsonable(case['msg'])
    for k, v in case['msg'].items():
        if v is None:
            msg[k] = None
    enc, hexbm = case['enc'], case['hex']
    nontrivial = any(k.startswith(('DE', 'PDS')) and ref.is_present(v) for k, v in msg.items())
    ctx.case_done(case, nontrivial=nontrivial)
    ctx.count('class:' + case['class'])
    for t in case.get('widened', ()):
        ctx.seen('encode-side spellings', t)
    for d in msgwork.describe({k: v for k, v in msg.items() if ref.is_present(v)}, cfg):
        ctx.seen('message features', d)
    try:
        want = ref.encode(msg, cfg, enc, hexbm)
    except ref.RefError as ex:
        ctx.count('reference refused the generated message (generator bug, not judged): ' + type(ex).__name__)
        return
    # (1) encode
    kind, data = ctx.call(iso.dumps, dict(msg), encoding=enc, iso_config=cfg, hex_bitmap=hexbm, budget=400000)
    ctx.count('dumps calls')
    if kind != 'ok':
        ctx.violation('encode:%s' % ('step_budget' if kind == 'steps' else 'exception:' + type(data).__name__),
                      {'case': case, 'error': repr(data)})
    elif data != want:
        ctx.violation('encode:bytes_differ:' + diff_class(data, want, hexbm),
                      {'case': case, 'got': hx(data)[:600], 'want': hx(want)[:600]})
    # (2) decode of the reference's bytes
    try:
        expect = ref.decode_strict(want, cfg, enc, hexbm)
    except ref.Reject as ex:
        ctx.count('strict reference rejects reference encoding (not judged): ' + ex.reason[:40])
        return
    kind, got = ctx.call(iso.loads, want, encoding=enc, iso_config=cfg, hex_bitmap=hexbm, budget=400000 + 100 * len(want))
    ctx.count('loads calls')
    if kind != 'ok':
        ctx.violation('decode:%s' % ('step_budget' if kind == 'steps' else 'exception:' + type(got).__name__),
                      {'case': case, 'wire': hx(want)[:600], 'error': repr(got)})
        return
    bad = dict_diff(got, expect)
    if bad:
        ctx.violation('decode:' + bad[0], {'case': case, 'wire': hx(want)[:600], 'key': bad[1], 'got': repr(bad[2])[:200],
                                           'want': repr(bad[3])[:200]})
        return
    # (2b) the dict that loads returned, fed back into dumps (it carries the derived TAGxxxx / ICC_DATA / DE43_* / PDSxxxx
    # entries next to the elements they came from), must give the same wire image again
    # (messages with PDS data are left out: a decoded dict holds the PDS entries AND the carriers they came from, and the
    # documented rule that PDS entries are re-packed into the carriers in ascending order then applies)
    if not any(k.startswith('PDS') for k in got) and not any('DE%d' % c in got for c in ref.carriers_of(cfg)):
        kind, again = ctx.call(iso.dumps, dict(got), encoding=enc, iso_config=cfg, hex_bitmap=hexbm, budget=400000)
        ctx.count('decoded dicts fed back into dumps')
        second = None
        if kind == 'ok':
            try:
                second = ref.decode_strict(again, cfg, enc, hexbm)
            except ref.Reject:
                second = None
        if kind != 'ok':
            ctx.violation('reencode_of_decoded_dict:%s' % ('step_budget' if kind == 'steps' else 'exception:' + type(again).__name__),
                          {'case': case, 'error': repr(again)[:200]})
            return
        if again != want and second != expect:
            ctx.violation('reencode_of_decoded_dict:wire_image_changed:' + diff_class(again, want, hexbm),
                          {'case': case, 'first': hx(want)[:400], 'second': hx(again)[:400]})
            return
    if len(ctx.samples) < 4 and 3 <= len(msg) <= 6:
        ctx.sample({'cfg': case['cfg'], 'enc': enc, 'hex_bitmap': hexbm, 'msg': gen.brief(msg), 'wire': hx(want)[:160]})


def diff_class(got, want, hexbm):
    hdr = 36 if hexbm else 20
    if got[:4] != want[:4]:
        return 'mti'
    if got[4:hdr] != want[4:hdr]:
        return 'bitmap'
    if len(got) != len(want):
        return 'body_length'
    return 'body_content'


def dict_diff(got, want):
    for k in want:
        if k not in got:
            return ('missing_key:' + keyclass(k), k, None, want[k])
    for k in got:
        if k not in want:
            return ('extra_key:' + keyclass(k), k, got[k], None)
    for k in want:
        a, b = got[k], want[k]
        if a != b or type(a).__name__ != type(b).__name__:
            return ('value_differs:' + keyclass(k), k, a, b)
    return None


def keyclass(k):
    if k.startswith('DE43_'):
        return 'DE43_*'
    if k.startswith('DE'):
        return 'DE'
    return k[:3] if not k.startswith('ICC') else 'ICC_DATA'


def judge_refusal(ctx, case):
    iso = ctx.iso
    cfg = msgwork.cfg_of(case['cfg'])
    n, b = case['n'], case['bit']
    v = bytes([0x9f, 0x10, 200]) * (n // 3) + b'\x01' * (n % 3) if case['bytes'] else 'A' * n
    v = v[:n]
    msg = {'MTI': '1240', 'DE%d' % b: v}
    ctx.case_done(case)
    ctx.count('class:refusal')
    kind, data = ctx.call(iso.dumps, dict(msg), encoding=case['enc'], iso_config=cfg, hex_bitmap=case['hex'], budget=400000)
    ctx.count('dumps calls')
    w = ref.PREFIX[cfg[str(b)]['field_type']]
    if kind == 'steps':
        ctx.violation('refusal:step_budget', {'case': case})
    elif kind == 'ok':
        ctx.violation('refusal:overlong_value_emitted:%s' % cfg[str(b)]['field_type'],
                      {'case': case, 'value_length': n, 'prefix_digits': w, 'emitted_head': hx(data[:30 + (16 if case['hex'] else 0)])})
    else:
        ctx.count('over-long value refused with ' + type(data).__name__)
    # and the longest representable value must still encode
    top = 10 ** w - 1
    ok_v = v[:top]
    kind, data = ctx.call(iso.dumps, {'MTI': '1240', 'DE%d' % b: ok_v}, encoding=case['enc'], iso_config=cfg,
                          hex_bitmap=case['hex'], budget=400000)
    if kind != 'ok':
        ctx.violation('refusal:longest_representable_value_refused', {'case': case, 'length': top, 'error': repr(data)})


def canaries(ctx):
    ctx.repo_tests_under_monitors(('C02',))       # second, independent workload for the same oracle
    cfg = msgwork.cfg_of('packaged')
    good = ref.encode({'MTI': '1240', 'DE3': 'AB'}, cfg)
    ctx.canary('reference pads fixed text on the right', good[20:] == b'AB    ')
    ctx.canary('right-justified padding differs', good != good[:20] + b'    AB')
    ctx.canary('diff classes', diff_class(good[:19] + b'\x01' + good[20:], good, False) == 'bitmap'
               and diff_class(good[:-1] + b'x', good, False) == 'body_content')
    ctx.canary('dict diff sees a changed value', dict_diff({'a': 1}, {'a': 2}) is not None
               and dict_diff({'a': '1'}, {'a': 1}) is not None and dict_diff({'a': 1}, {'a': 1}) is None)
    try:
        ref.encode({'MTI': '1240', 'DE2': '9' * 100}, cfg)
        ok = False
    except ref.Unrepresentable:
        ok = True
    ctx.canary('reference refuses a 100-character LLVAR', ok)
    z = ref.encode({'MTI': '1240', 'DE4': '42'}, cfg, 'cp500')
    ctx.canary('EBCDIC zero padding', z[20:] == ('0' * 10 + '42').encode('cp500'))


def require(m):
    reasons = []
    c = m['counters']
    if not c.get('class:bit_pairs_exhaustive'):
        reasons.append('bit pairs not enumerated')
    if not c.get('decoded dicts fed back into dumps'):
        reasons.append('no decoded dict was fed back into dumps')
    if c.get('thread alternations between consecutive dumps calls', 0) < 20:
        reasons.append('threaded dumps did not overlap')
    if not c.get('class:refusal'):
        reasons.append('refusal cases not driven')
    if not c.get('class:unencodable'):
        reasons.append('text outside the encoding never offered to dumps')
    feats = set(m['classes'].get('encode-side spellings', ()))
    for need in ('number_as_string', 'date_as_iso_string', 'short_fixed_text', 'empty_or_none_value', 'decimal_in_exponent_form'):
        if need not in feats:
            reasons.append('encode-side spelling never exercised: ' + need)
    mf = set(m['classes'].get('message features', ()))
    for need in ('bit>64', 'proc:ICC', 'proc:DE43', 'proc:PDS', 'proc:PAN', 'type:datetime', 'type:decimal', 'type:int',
                 'variable-length:decimal', 'variable-length:int'):
        if need not in mf:
            reasons.append('feature never exercised: ' + need)
    bugs = [k for k in c if k.startswith(('reference refused', 'strict reference rejects'))]
    n_bug = sum(c[k] for k in bugs)
    if n_bug > 0.02 * max(1, m['evals']):
        reasons.append('too many generated messages were not judged (%d): %s' % (n_bug, bugs[:3]))
    return reasons
