"""C06 - IPM file round trip: messages written are the messages read back; instances do not influence each other."""
import copy
import io
import os
import sys
import threading

from .. import gen, msgwork, sentinel
from ..core import hx, digest
from ..ref import blocking as refb
from ..ref import codec as ref

ID = 'C06'
LEVEL = 'exploration'
PER_THREAD_STEPS = True
ANCHORS = ('IpmWriter.write', 'IpmReader.__next__', 'VbsReader.__next__', 'VbsWriter.write', 'VbsWriter.close', 'IpmWriter.__init__',
           'IpmReader.__init__')
RULE = ('round-trip case = (message list, codec, format, configuration): the file written by the real IpmWriter must equal the '
        'reference framing of the reference encodings, and the real IpmReader must return the same number of messages in the '
        'same order, each satisfying the C01 relation. Isolation case = (2..4 reader/writer programs, seeded schedule at '
        'operation granularity, or 8 threads): every instance\'s observables (file bytes, records yielded, record_number and '
        'last_record after each step) must equal those of the same program run alone. Distinct by digest. Non-trivial: at '
        'least one message.')
ASSUMPTIONS = ['vmon/ref/codec.py, vmon/ref/blocking.py', 'each thread owns its files and message objects (the statement is about '
               'different files)', 'messages are at most MAX_VBS_RECORD_LENGTH bytes when encoded']
SHARD_TIMEOUT = {'quick': 1800, 'thorough': 14400}
ENCS = ('latin_1', 'cp500', 'cp037')


def prepare(ctx):
    ctx.online_wanted = ('C03', 'C04', 'C05', 'C09')      # shadow-model monitors watch the file layer while this workload runs
    from cardutil import iso8583, mciipm
    from cardutil.config import config
    ctx.iso, ctx.mciipm = iso8583, mciipm
    msgwork.set_packaged(config['bit_config'])


def gen_list(rng, cfg, enc, n, big=False):
    out = []
    for _ in range(n):
        for attempt in range(6):
            if big and rng.random() < 0.3:
                lll = [b for b in gen.data_bits(cfg) if cfg[str(b)]['field_type'] == 'LLLVAR' and not cfg[str(b)].get('field_processor')
                       and gen.is_text(cfg[str(b)])]
                take = rng.sample(lll, min(len(lll), rng.randint(2, 5)))
                m = gen.gen_message(rng, cfg, enc, subset=take, pds_mode='none', lengths={b: rng.randint(900, 999) for b in take})
                if ref.carriers_of(cfg) and rng.random() < 0.5:
                    m.update(gen.gen_pds_items(rng, enc, len(ref.carriers_of(cfg)), 1))
            else:
                m = gen.gen_message(rng, cfg, enc)
            try:
                if len(ref.encode(m, cfg, enc)) <= 6000:
                    out.append(m)
                    break
            except ref.RefError:
                continue
    return out


def peek(obj, name):
    """Extra observables of an instance, when it has them (they are not part of any public contract)."""
    try:
        return getattr(obj, name, None)
    except Exception:      # noqa
        return None


def cases(ctx):
    quick = ctx.tier == 'quick'
    cids = msgwork.config_ids(ctx, 3 if quick else 12, 1 if quick else 3)
    encs = list(ENCS) + ([] if quick else msgwork.codecs_for(ctx, 5)[4:])
    rng = ctx.rng('lists')
    for j in range((260 if quick else 3000) // ctx.nshards + 1):
        n = rng.choice([1, 2, 3, 5, 10, 30, 80] + ([150, 300] if j % 7 == 0 else []) + ([600] if not quick and j % 40 == 0 else []))
        yield {'kind': 'roundtrip', 'cfg': rng.choice(cids), 'enc': rng.choice(encs), 'fmt': rng.choice(['vbs', '1014']),
               'n': n, 'salt': rng.randint(0, 10 ** 9), 'big': rng.random() < 0.4, 'api': rng.choice(['write', 'write_many', 'with'])}
    # a long fixed element left blank: in EBCDIC (and with '@' in Latin-1) a whole 1014 block of the file is then x'40',
    # byte for byte what the blocker uses as fill - it is data all the same
    for k, (enc_b, ch) in enumerate((('cp500', ' '), ('cp037', ' '), ('latin_1', '@'), ('cp500', ' '))):
        if ctx.shard == 7 + k:
            yield {'kind': 'roundtrip', 'cfg': ['special', 0], 'enc': enc_b, 'fmt': '1014', 'n': 14, 'salt': 4242 + k + ctx.seed,
                   'big': False, 'api': ('write', 'with', 'write_many', 'write')[k], 'blank': ch}
    # files of more than 1 MiB and more than 2 MiB of blocks (buffering thresholds in readers/writers)
    if ctx.shard in (3, 4):
        yield {'kind': 'roundtrip', 'cfg': 'packaged', 'enc': 'cp500' if ctx.shard == 3 else 'latin_1', 'fmt': '1014',
               'n': 260 if ctx.shard == 3 else 420, 'salt': 77 + ctx.seed, 'big': True, 'huge': True, 'api': 'write'}
    for j in range((300 if quick else 6000) // ctx.nshards + 1):
        yield {'kind': 'interleave', 'salt': rng.randint(0, 10 ** 9), 'instances': rng.randint(2, 4)}
    if ctx.shard < (2 if quick else 8):
        yield {'kind': 'threads', 'threads': 8, 'rounds': 50 if quick else 200, 'salt': ctx.shard}
    # the very first use of the library in a process, from several threads at once (lazily built tables, first-use caches)
    for j in range(2 if quick else 12):
        yield {'kind': 'cold_start', 'threads': 8, 'salt': ctx.shard * 100 + j}
    if ctx.shard in (5, 6):
        yield {'kind': 'composed', 'salt': ctx.shard}
    # the same round trips in interpreters started with other options, and in other time zones
    from .. import optrun
    combos = [(o, None) for o in optrun.OPTION_SETS] + [((), 'EST5EDT,M3.2.0,M11.1.0'), ((), 'XXX3YYY,M10.3.0/0,M2.3.0/0'), (('-O',), 'EST5EDT,M3.2.0,M11.1.0')]
    for j, (opts, tz) in enumerate(combos):
        if ctx.shard == (8 + j) % ctx.nshards:
            yield {'kind': 'interpreter_options', 'options': list(opts), 'tz': tz, 'salt': 900 + j + ctx.seed}


# -------------------------------------------------------------------------------------------------------- round trip
def judge(ctx, case):
    if case['kind'] == 'roundtrip':
        return judge_roundtrip(ctx, case)
    if case['kind'] == 'interleave':
        return judge_interleave(ctx, case)
    if case['kind'] == 'cold_start':
        return judge_cold_start(ctx, case)
    if case['kind'] == 'composed':
        return judge_composed(ctx, case)
    if case['kind'] == 'interpreter_options':
        return judge_interpreter_options(ctx, case)
    return judge_threads(ctx, case)


def judge_roundtrip(ctx, case):
    m = ctx.mciipm
    # a throwaway deep copy per file: configuration objects come and go in real programs (and their ids get reused)
    cfg = copy.deepcopy(msgwork.cfg_of(case['cfg']))
    enc = case['enc']
    blocked = case['fmt'] == '1014'
    rng = ctx.rng_global('rt', case['salt'])
    if case.get('huge'):
        lll = [b for b in gen.data_bits(cfg) if cfg[str(b)]['field_type'] == 'LLLVAR' and not cfg[str(b)].get('field_processor')
               and gen.is_text(cfg[str(b)])]
        msgs = []
        for k in range(case['n']):
            take = rng.sample(lll, 5)
            x = gen.gen_message(rng, cfg, enc, subset=take + [2, 3, 4], pds_mode='none', lengths={b: rng.randint(960, 999) for b in take})
            if k % 3 == 0:
                x.update(gen.gen_pds_items(rng, enc, 2, 1))
            if len(ref.encode(x, cfg, enc)) <= 6000:
                msgs.append(x)
        ctx.count('round trips of files over 1 MiB')
    elif case.get('blank'):
        wide = [b for b in gen.data_bits(cfg) if cfg[str(b)]['field_type'] == 'FIXED' and cfg[str(b)]['field_length'] > 1100
                and gen.is_text(cfg[str(b)])]
        msgs = []
        for attempt in range(60):
            msgs = []
            for k in range(case['n']):
                x = gen.gen_message(rng, cfg, enc, pds_mode='none')
                for b in wide:
                    x['DE%d' % b] = case['blank'] * cfg[str(b)]['field_length']
                if len(ref.encode(x, cfg, enc)) <= 6000:
                    msgs.append(x)
            image = refb.block(refb.vbs([ref.encode(x, cfg, enc) for x in msgs]))
            if any(image[o:o + 1014] == b'\x40' * 1014 for o in range(0, len(image) - 1014, 1014)):
                ctx.count('files with a whole block of fill bytes inside the data')
                break
    else:
        msgs = gen_list(rng, cfg, enc, case['n'], case['big'])
        if case['salt'] % 3 == 0 and len(ref.carriers_of(cfg)) >= 2:
            # two records with exactly the same keys and very different sizes, one after the other (both orders): what the
            # first needed - how many carriers - must not be remembered for the second
            small = {'MTI': '1240', 'PDS0005': 'abc', 'PDS0010': 'de', 'PDS0148': 'f'}
            big = {'MTI': '1240', 'PDS0005': 'A' * 600, 'PDS0010': 'B' * 610, 'PDS0148': 'C' * 300}
            at = rng.randint(0, len(msgs))
            msgs[at:at] = [small, big, dict(small), dict(big)] if case['salt'] % 2 else [big, small, dict(big)]
            ctx.count('files holding records with the same keys and other sizes next to each other')
    ctx.case_done(case, nontrivial=bool(msgs))
    if not msgs:
        return
    wires = [ref.encode(x, cfg, enc) for x in msgs]
    stream = refb.vbs(wires)
    want_file = refb.block(stream) if blocked else stream
    ctx.seen('formats', case['fmt'])
    ctx.seen('codecs', enc)
    ctx.seen('list sizes', len(msgs))
    ctx.seen('blocks per file (log2)', (len(want_file) // 1014).bit_length() if blocked else -1)
    if max(len(w) for w in wires) > 3000:
        ctx.count('files holding a record over 3000 bytes')
    f = io.BytesIO()

    def write():
        if case['api'] == 'with':
            with m.IpmWriter(f, encoding=enc, iso_config=cfg, blocked=blocked) as w:
                for x in msgs:
                    w.write(dict(x))
        else:
            w = m.IpmWriter(f, encoding=enc, iso_config=cfg, blocked=blocked)
            if case['api'] == 'write_many':
                w.write_many(dict(x) for x in msgs)
            else:
                for x in msgs:
                    w.write(dict(x))
            w.close()
        return f.getvalue()
    kind, data = ctx.call(write, budget=400000 + 3000 * len(msgs) + 20 * len(want_file))
    ctx.count('IpmWriter files')
    if kind != 'ok':
        ctx.violation('write:%s' % ('step_budget' if kind == 'steps' else 'exception:' + type(data).__name__),
                      {'case': case, 'error': repr(data)[:200]})
        return
    if data != want_file and not (blocked and data == want_file + refb.FILL_BLOCK):
        ctx.violation('file_differs_from_reference_framing', {'case': case, 'got_len': len(data), 'want_len': len(want_file),
                                                            'first_diff': next((i for i, (a, b) in enumerate(zip(data, want_file)) if a != b), None)})
        return

    style = ('list', 'list', 'next_then_for', 'for_break_for')[case['salt'] % 4]
    ctx.seen('ways the reader was walked', style)

    def read():
        r = m.IpmReader(io.BytesIO(data), encoding=enc, iso_config=cfg, blocked=blocked)
        if style == 'list':
            return list(r)
        out = []
        if style == 'next_then_for':
            first = next(r, None)
            if first is None:
                return out
            out.append(first)
            for rec in r:
                out.append(rec)
            return out
        broke = False
        for rec in r:
            out.append(rec)
            if len(out) == 2:
                broke = True
                break
        if broke:
            for rec in r:
                out.append(rec)
        return out
    kind, back = ctx.call(read, budget=400000 + 6000 * len(msgs) + 100 * len(data))
    ctx.count('IpmReader files')
    if kind != 'ok':
        ctx.violation('read:%s' % ('step_budget' if kind == 'steps' else 'exception:' + type(back).__name__),
                      {'case': case, 'error': repr(back)[:300]})
        return
    if len(back) != len(msgs):
        ctx.violation('record_count_differs', {'case': case, 'written': len(msgs), 'read': len(back)})
        return
    for idx, (sent, got) in enumerate(zip(msgs, back)):
        want = gen.expected_roundtrip(sent, cfg)
        bad = [k for k, v in want.items() if k not in got or got[k] != v]
        extra = [k for k in got if k not in want and not gen.allowed_extra_key(k, cfg)]
        if bad or extra:
            ctx.violation('message_changed_in_file_round_trip' if bad else 'undocumented_extra_key',
                          {'case': case, 'index': idx, 'keys': (bad or extra)[:5],
                           'sent': repr({k: want.get(k) for k in bad[:2]})[:200], 'got': repr({k: got.get(k) for k in bad[:2]})[:200]})
            return
    if len(ctx.samples) < 3 and 2 <= len(msgs) <= 5:
        ctx.sample({'case': case, 'file_len': len(data), 'record_lens': [len(w) for w in wires]})


# -------------------------------------------------------------------------------------------------------- isolation
class Program:
    """One reader or writer instance and the operations it will perform."""

    def __init__(self, ctx, rng, idx):
        m = ctx.mciipm
        self.role = rng.choice(['writer', 'reader', 'reader'])
        self.cid = rng.choice(['packaged', ['variant', ctx.seed * 7919], ['special', 0]])
        self.cfg = copy.deepcopy(msgwork.cfg_of(self.cid))
        self.enc = rng.choice(ENCS)
        self.blocked = rng.random() < 0.5
        self.msgs = gen_list(rng, self.cfg, self.enc, rng.randint(1, 7))
        if self.role == 'reader':
            wires = [ref.encode(x, self.cfg, self.enc) for x in self.msgs]
            if rng.random() < 0.25 and wires:
                # a reader that will hit a fault: its error must carry its own record number
                k = rng.randrange(len(wires))
                wires[k] = wires[k][:4] + bytes([wires[k][4] | 0x02]) + wires[k][5:]
            s = refb.vbs(wires)
            self.data = refb.block(s) if self.blocked else s
        self.m = m

    def start(self):
        m = self.m
        self.trace = []
        if self.role == 'writer':
            self.f = io.BytesIO()
            self.inst = m.IpmWriter(self.f, encoding=self.enc, iso_config=self.cfg, blocked=self.blocked)
            self.ops = [('write', i) for i in range(len(self.msgs))] + [('close', None)]
        else:
            self.inst = m.IpmReader(io.BytesIO(self.data), encoding=self.enc, iso_config=self.cfg, blocked=self.blocked)
            self.ops = [('next', None)] * (len(self.msgs) + 2)
        self.pc = 0
        self.done = False

    def step(self):
        """Perform one operation; append what became observable."""
        if self.pc >= len(self.ops) or self.done:
            self.done = True
            return
        op, arg = self.ops[self.pc]
        self.pc += 1
        if self.role == 'reader':
            # what the instance shows before it is touched again: other instances have run since its last step
            self.trace.append(('before', peek(self.inst, 'record_number'), digest(peek(self.inst, 'last_record') or b'')))
        try:
            if op == 'write':
                self.inst.write(dict(self.msgs[arg]))
                self.trace.append(('write', arg))
            elif op == 'close':
                self.inst.close()
                self.trace.append(('closed', digest(self.f.getvalue()), len(self.f.getvalue())))
            else:
                rec = next(self.inst)
                self.trace.append(('record', digest(repr(sorted(rec.items(), key=lambda kv: kv[0]))), peek(self.inst, 'record_number'),
                                   digest(peek(self.inst, 'last_record') or b'')))
        except StopIteration:
            self.trace.append(('end', peek(self.inst, 'record_number')))
            self.done = True
        except Exception as ex:  # noqa - part of the observable behaviour
            self.trace.append(('error', type(ex).__name__, getattr(ex, 'record_number', None),
                               digest(getattr(ex, 'binary_context_data', None) or b'')))
            self.done = True
        if self.pc >= len(self.ops):
            self.done = True

    def run_alone(self):
        self.start()
        while not self.done:
            self.step()
        return list(self.trace)


def judge_interleave(ctx, case):
    rng = ctx.rng_global('il', case['salt'])
    progs = [Program(ctx, rng, i) for i in range(case['instances'])]
    ctx.case_done(case)

    def solo():
        return [p.run_alone() for p in progs]
    kind, alone = ctx.call(solo, budget=4000000)
    if kind != 'ok':
        ctx.violation('isolation:solo_run:%s' % ('step_budget' if kind == 'steps' else type(alone).__name__), {'case': case})
        return
    schedule = []

    def together():
        for p in progs:
            p.start()
        live = list(range(len(progs)))
        while live:
            i = rng.choice(live)
            burst = rng.choice([1, 1, 1, 2, 3])
            for _ in range(burst):
                if not progs[i].done:
                    progs[i].step()
                    schedule.append(i)
            if progs[i].done:
                live.remove(i)
        return [list(p.trace) for p in progs]
    kind, mixed = ctx.call(together, budget=4000000)
    ctx.count('interleaved schedules run')
    if kind != 'ok':
        ctx.violation('isolation:interleaved_run:%s' % ('step_budget' if kind == 'steps' else type(mixed).__name__), {'case': case})
        return
    switches = sum(1 for a, b in zip(schedule, schedule[1:]) if a != b)
    ctx.count('instance switches inside schedules', switches)
    ctx.seen('role mixes', ''.join(sorted(p.role[0] for p in progs)))
    if any(t and t[-1][0] == 'error' for t in alone):
        ctx.count('schedules containing a reader that hits a fault')
    for i, (a, b) in enumerate(zip(alone, mixed)):
        if a != b:
            step_no = next((j for j, (x, y) in enumerate(zip(a, b)) if x != y), min(len(a), len(b)))
            what = (b[step_no][0] if step_no < len(b) else 'missing')
            ctx.violation('isolation:instance_behaves_differently_when_interleaved:%s:%s' % (progs[i].role, what),
                          {'case': case, 'instance': i, 'role': progs[i].role, 'step': step_no,
                           'alone': repr(a[step_no:step_no + 2]), 'interleaved': repr(b[step_no:step_no + 2]),
                           'schedule_head': schedule[:40]})
            return
    if len(ctx.samples) < 5:
        ctx.sample({'case': case, 'roles': [p.role for p in progs], 'schedule_head': schedule[:24], 'switches': switches})


def judge_threads(ctx, case):
    old = sys.getswitchinterval()
    nthreads, rounds = case['threads'], case['rounds']
    ctx.case_done(case)
    plans = []
    for t in range(nthreads):
        rng = ctx.rng_global('thr', case['salt'], t)
        plans.append([Program(ctx, rng, i) for i in range(6)])
    # expected: every program alone, in this thread, before any other thread exists
    expected = [[p.run_alone() for p in plan] for plan in plans]
    log = []
    failures = []
    tripped = []
    start = threading.Barrier(nthreads)

    def worker(t):
        try:
            start.wait()
            for r in range(rounds):
                p = plans[t][r % len(plans[t])]
                sentinel.arm(2000000)
                try:
                    p.start()
                    while not p.done:
                        p.step()
                        log.append(t)
                finally:
                    sentinel.disarm()
                if p.trace != expected[t][r % len(plans[t])]:
                    failures.append((t, r, p.role, repr(p.trace[-2:]), repr(expected[t][r % len(plans[t])][-2:])))
                    return
        except sentinel.StepBudgetExceeded:
            tripped.append(t)
        except BaseException as ex:  # noqa
            failures.append((t, -1, 'crash', repr(ex), ''))
    sys.setswitchinterval(1e-6)
    try:
        threads = [threading.Thread(target=worker, args=(t,)) for t in range(nthreads)]
        for th in threads:
            th.start()
        for th in threads:
            th.join(600)
        alive = [th for th in threads if th.is_alive()]
    finally:
        sys.setswitchinterval(old)
    if alive:
        ctx.inconclusive_because('threaded stress did not finish within its wall-clock allowance')
        return
    alternations = sum(1 for a, b in zip(log, log[1:]) if a != b)
    ctx.count('threaded round trips', nthreads * rounds)
    ctx.count('thread alternations between consecutive operations', alternations)
    ctx.count('operations under threads', len(log))
    if tripped:
        ctx.violation('isolation:threads:step_budget', {'case': case, 'threads': tripped})
    for t, r, role, got, want in failures[:1]:
        ctx.violation('isolation:instance_behaves_differently_under_threads:%s' % role,
                      {'case': case, 'thread': t, 'round': r, 'got': got, 'want': want})
    if not failures and len(ctx.samples) < 6:
        ctx.sample({'case': case, 'operations': len(log), 'thread_alternations': alternations})


COLD_CHILD = r'''
import sys, io, json, threading
sys.path.insert(0, sys.argv[1])
spec = json.loads(sys.stdin.read())
sys.setswitchinterval(1e-6)
results = [None] * len(spec['files'])
start = threading.Barrier(len(spec['files']))


def worker(i):
    f = spec['files'][i]
    try:
        start.wait()
        # nothing of cardutil has run in this process yet: import and first use happen here, in every thread at once
        from cardutil import mciipm
        out = []
        if f['role'] == 'reader':
            for rec in mciipm.IpmReader(io.BytesIO(bytes.fromhex(f['data'])), encoding=f['enc'], blocked=f['blocked']):
                out.append(sorted((k, repr(v)) for k, v in rec.items()))
            results[i] = ['records', out]
        else:
            buf = io.BytesIO()
            with mciipm.IpmWriter(buf, encoding=f['enc'], blocked=f['blocked']) as w:
                for m in f['msgs']:
                    w.write(dict(m))
            results[i] = ['file', buf.getvalue().hex()]
    except BaseException as ex:
        results[i] = ['error', type(ex).__name__ + ': ' + str(ex)[:100]]


ths = [threading.Thread(target=worker, args=(i,)) for i in range(len(spec['files']))]
for t in ths:
    t.start()
for t in ths:
    t.join(120)
print(json.dumps(results))
'''


def judge_cold_start(ctx, case):
    """
    Fresh interpreter; the threads are released before anything of cardutil has run, so import-time and first-use state is
    built under contention.  Every thread works on its own file; its result must be what the same work gives alone
    (computed here, in this already warm process, by the reference encoder/decoder).
    """
    import json
    import subprocess
    from .. import env
    cfg = msgwork.cfg_of('packaged')
    rng = ctx.rng_global('cold', case['salt'])
    files, expect = [], []
    for t in range(case['threads']):
        enc = ENCS[t % 3]
        blocked = bool(t % 2)
        msgs = [{k: v for k, v in x.items() if isinstance(v, (str, int))} for x in gen_list(rng, cfg, enc, rng.randint(1, 4))]
        msgs = [dict(x, MTI=x.get('MTI', '1240')) for x in msgs]
        wires = [ref.encode(x, cfg, enc) for x in msgs]
        stream = refb.vbs(wires)
        data = refb.block(stream) if blocked else stream
        if t % 4 == 3:
            files.append({'role': 'writer', 'enc': enc, 'blocked': blocked, 'msgs': msgs})
            expect.append(['file', data.hex()])
        else:
            files.append({'role': 'reader', 'enc': enc, 'blocked': blocked, 'data': data.hex()})
            expect.append(['records', [sorted((k, repr(v)) for k, v in ref.decode_strict(w, cfg, enc).items()) for w in wires]])
    e = dict(os.environ, PYTHONDONTWRITEBYTECODE='1', PYTHONWARNINGS='ignore')
    e.pop('PYTHONPATH', None)
    try:
        p = subprocess.run([env.PYTHON, '-B', '-c', COLD_CHILD, env.REPO], input=json.dumps({'files': files}).encode(),
                           capture_output=True, env=e, timeout=300)
        got = json.loads(p.stdout.decode().strip().splitlines()[-1])
    except Exception as ex:  # noqa
        ctx.inconclusive_because('cold-start child did not report: %r' % (ex,))
        return
    ctx.case_done(case)
    ctx.count('cold-start trials (fresh interpreter, threads released before first use)')
    expect = json.loads(json.dumps(expect))          # same shape as what travelled through the child's JSON report
    for i, (g, w) in enumerate(zip(got, expect)):
        if g != w and files[i]['role'] == 'writer' and files[i]['blocked'] and g and g[0] == 'file' \
                and g[1] == w[1] + refb.FILL_BLOCK.hex():
            # a stream that ends exactly on a block boundary may be followed by one all-fill block (C04's statement):
            # the streaming writer adds it, the reference blocker does not - both are the file of these records
            ctx.count('cold-start writers whose file ends with the optional all-fill block')
            continue
        if g != w:
            kind = g[0] if g else 'nothing'
            ctx.violation('isolation:cold_start:%s:%s' % (files[i]['role'], 'error' if kind == 'error' else 'result_differs'),
                          {'case': case, 'thread': i, 'got': repr(g)[:300], 'want_kind': w[0]})
            return


class _ThroughReader(io.RawIOBase):
    """A binary stream whose bytes come from the records of another VbsReader (a blocked file shipped one block per record)."""

    def __init__(self, reader):
        self.reader = reader
        self.buf = b''

    def readable(self):
        return True

    def read(self, n=-1):
        while n < 0 or len(self.buf) < n:
            try:
                self.buf += next(self.reader)
            except StopIteration:
                break
        if n < 0:
            out, self.buf = self.buf, b''
        else:
            out, self.buf = self.buf[:n], self.buf[n:]
        return out


def gap_datetimes():
    """Wall-clock times that do not exist in some time zone: the hour skipped when daylight saving starts (02:00-03:00 on
    the second Sunday of March under the US rule; 00:00-01:00 on the third Sunday of October under a rule that switches
    at midnight), plus the repeated hour and ordinary neighbours."""
    import datetime
    out = []
    for year in (2015, 2019, 2021, 2024):
        d = datetime.date(year, 3, 8)
        d += datetime.timedelta(days=(6 - d.weekday()) % 7)
        o = datetime.date(year, 10, 15)
        o += datetime.timedelta(days=(6 - o.weekday()) % 7)
        for day, hours in ((d, (1, 2, 3)), (o, (0, 1, 23))):
            for h in hours:
                out.append(datetime.datetime(day.year, day.month, day.day, h, 30, 0))
        n = datetime.date(year, 11, 1)
        n += datetime.timedelta(days=(6 - n.weekday()) % 7)
        out.append(datetime.datetime(n.year, n.month, n.day, 1, 30, 0))
    return out


def judge_interpreter_options(ctx, case):
    """Round trips made in a child interpreter started with other options (-bb, -O, ...) or under another TZ: the file
    must still be the reference framing of the reference encodings, and what is read back the messages written."""
    import tempfile
    from .. import optchild, optrun
    cfg = msgwork.cfg_of('packaged')
    rng = ctx.rng_global('opt', case['salt'])
    jobs, expect = [], []
    for enc in ('latin_1', 'cp500'):
        for blocked in (False, True):
            msgs = gen_list(rng, cfg, enc, 6, True)
            big = gen.gen_message(rng, cfg, enc, subset=[2, 3, 4, 54, 72, 111, 127], pds_mode='none',
                                  lengths={54: 120, 72: 999, 111: 999, 127: 999})
            msgs.insert(2, big)
            for k, dt in enumerate(gap_datetimes()[:8] if case['tz'] else ()):
                msgs.append({'MTI': '1240', 'DE2': '4444555566667777', 'DE12': dt, 'DE71': k + 1})
            wires = [ref.encode(x, cfg, enc) for x in msgs]
            want = refb.vbs(wires)
            want = refb.block(want) if blocked else want
            jobs.append({'op': 'roundtrip', 'enc': enc, 'blocked': blocked, 'msgs': optchild.jsonable([dict(x) for x in msgs])})
            expect.append(('roundtrip', want, [gen.expected_roundtrip(x, cfg) for x in msgs], blocked))
    for blocked in (False, True):
        recs = [bytes((7 * i + j) % 251 for j in range(n)) for i, n in enumerate((5, 2500, 1004, 3036, 6000, 1))]
        want = refb.vbs(recs)
        jobs.append({'op': 'vbs', 'blocked': blocked, 'recs': [r.hex() for r in recs]})
        expect.append(('vbs', refb.block(want) if blocked else want, recs, blocked))
    tmp = tempfile.mkdtemp(prefix='vmon-c06-opt-')
    status, answers, at, done, err = optrun.run(ctx, jobs, case['options'], tmp, tz=case['tz'])
    label = ' '.join(case['options']) or 'default options'
    label += (' TZ=' + case['tz'].split(',')[0]) if case['tz'] else ''
    ctx.case_done(['opt', case['options'], case['tz']], nontrivial=True)
    ctx.seen('interpreter options / time zones the round trips were repeated under', label)
    if status == 'wall' or (not done and status == 'ok' and not answers):
        ctx.inconclusive_because('interpreter-options child did not finish (%s): %s' % (label, err[-200:]))
        return
    if status == 'cpu':
        ctx.violation('options:%s:cpu_allowance_used_up' % label, {'case': case, 'job': at})
        return
    for i, (op, want_file, want_back, blocked) in enumerate(expect):
        a = answers.get(i)
        ctx.count('round trips judged in a child interpreter')
        if a is None:
            ctx.violation('options:%s:child_ended_in_job' % label, {'case': case, 'job': i, 'stderr': err})
            return
        if 'ok' not in a:
            ctx.violation('options:%s:%s:%s' % (label, op, 'escape:%s@%s' % (a.get('escape'), a.get('where')) if 'escape' in a else 'refused:' + a['lib']),
                          {'case': case, 'job': i})
            return
        got_file = bytes.fromhex(a['ok']['file'])
        if got_file != want_file and not (blocked and got_file == want_file + refb.FILL_BLOCK):
            ctx.violation('options:%s:%s:file_differs_from_reference_framing' % (label, op),
                          {'case': case, 'job': i, 'got_len': len(got_file), 'want_len': len(want_file)})
            return
        if op == 'vbs':
            if [bytes.fromhex(r) for r in a['ok']['back']] != want_back:
                ctx.violation('options:%s:vbs:records_differ' % label, {'case': case, 'job': i})
                return
            continue
        back = optchild.unjsonable(a['ok']['back'])
        if len(back) != len(want_back):
            ctx.violation('options:%s:roundtrip:record_count_differs' % label, {'case': case, 'job': i})
            return
        for idx, (w, g) in enumerate(zip(want_back, back)):
            bad = [k for k, v in w.items() if k not in g or g[k] != v]
            if bad:
                ctx.violation('options:%s:roundtrip:message_changed:%s' % (label, 'datetime' if bad == ['DE12'] else 'other'),
                              {'case': case, 'job': i, 'index': idx, 'keys': bad[:4], 'sent': repr(w.get(bad[0]))[:80], 'got': repr(g.get(bad[0]))[:80]})
                return
        info = a['ok'].get('info') or {}
        if info.get('isValidIPM') is not True:
            ctx.violation('options:%s:roundtrip:inspection_says_invalid' % label, {'case': case, 'job': i, 'info': info})
            return


def judge_composed(ctx, case):
    """
    Readers that depend on each other's progress: one reader's file object is fed by another reader, and a reader whose
    source is slow must not hold up a reader on a different file.  Run in worker threads with generous deadlines; a thread
    that never finishes is a violation here (a deadlock does not resolve itself), reported with what it was doing.
    """
    import threading
    import time
    m = ctx.mciipm
    cfg = msgwork.cfg_of('packaged')
    rng = ctx.rng_global('composed', case['salt'])
    msgs = gen_list(rng, cfg, 'latin_1', 12)
    wires = [ref.encode(x, cfg, 'latin_1') for x in msgs]
    inner = refb.block(refb.vbs(wires))
    outer = refb.vbs([inner[k:k + 1014] for k in range(0, len(inner), 1014)])
    want = [ref.decode_strict(w, cfg, 'latin_1') for w in wires]
    ctx.case_done(case)
    box = {}

    def nested():
        r = m.IpmReader(_ThroughReader(m.VbsReader(io.BytesIO(outer))), blocked=True)
        box['nested'] = list(r)
    th = threading.Thread(target=nested, daemon=True)
    th.start()
    th.join(120)
    ctx.count('composed reader runs')
    if th.is_alive():
        ctx.violation('isolation:reader_reading_through_another_reader_never_finishes', {'case': case, 'waited_s': 120})
        return
    if box.get('nested') != want:
        ctx.violation('isolation:reader_reading_through_another_reader:result_differs', {'case': case, 'got': len(box.get('nested') or [])})
        return

    class Slow(io.BytesIO):
        gate = threading.Event()

        def read(self, n=-1):
            Slow.gate.wait(30)
            return super().read(n)
    fast_done = threading.Event()

    def slow_reader():
        try:
            list(m.VbsReader(Slow(refb.vbs([b'x' * 10]))))
        except Exception:  # noqa
            pass

    def fast_reader():
        box['fast'] = list(m.IpmReader(io.BytesIO(refb.vbs(wires))))
        fast_done.set()
    a = threading.Thread(target=slow_reader, daemon=True)
    a.start()
    time.sleep(0.05)
    b = threading.Thread(target=fast_reader, daemon=True)
    b.start()
    ok = fast_done.wait(20)
    Slow.gate.set()
    a.join(60)
    b.join(60)
    if not ok:
        ctx.violation('isolation:reader_starved_by_a_reader_on_another_file', {'case': case, 'waited_s': 20})
    elif box.get('fast') != want:
        ctx.violation('isolation:reader_next_to_a_slow_reader:result_differs', {'case': case})


def canaries(ctx):
    cfg = msgwork.cfg_of('packaged')
    a = {'MTI': '1240', 'DE2': '4' * 16}
    ctx.canary('relation sees a changed value', gen.expected_roundtrip(a, cfg)['DE2'] != '4' * 15)
    w = ref.encode(a, cfg, 'cp500')
    ctx.canary('reference framing', refb.vbs([w])[:4] == len(w).to_bytes(4, 'big'))
    rng = ctx.rng_global('canary')
    p = Program(ctx, rng, 0)
    t1, t2 = p.run_alone(), p.run_alone()
    ctx.canary('solo runs are reproducible', t1 == t2 and len(t1) >= 1)
    # a class-level counter must be visible to the trace comparison
    q = Program(ctx, rng, 1)
    base_trace = q.run_alone()
    for _ in range(200):
        if q.role == 'reader' and any(x[0] == 'record' for x in base_trace):
            break
        q = Program(ctx, rng, 1)
        base_trace = q.run_alone()
    # (the counter is an extra observable; a reader that does not expose one yields None there)
    fake = [x if x[0] != 'record' else (x[0], x[1], (x[2] or 0) + 1, x[3]) for x in base_trace]
    ctx.canary('a shifted record counter changes the trace', fake != base_trace)


def require(m):
    reasons = []
    c = m['counters']
    if set(m['classes'].get('formats', ())) != {'vbs', '1014'}:
        reasons.append('both formats not driven')
    if not set(ENCS) <= set(m['classes'].get('codecs', ())):
        reasons.append('core codecs not all driven')
    if not c.get('interleaved schedules run') or not c.get('instance switches inside schedules'):
        reasons.append('no interleaving with instance switches was run')
    if not c.get('threaded round trips'):
        reasons.append('threaded stress did not run')
    elif c.get('thread alternations between consecutive operations', 0) < 50:
        reasons.append('threads did not actually overlap (fewer than 50 alternations observed)')
    if not c.get('cold-start trials (fresh interpreter, threads released before first use)'):
        reasons.append('no cold-start trial ran')
    if not c.get('files with a whole block of fill bytes inside the data') and not m['violations']:
        reasons.append('no file with a whole block of fill bytes inside the data')
    if not c.get('files holding records with the same keys and other sizes next to each other') and not m['violations']:
        reasons.append('no file with same-keys-other-sizes neighbours')
    if not {'list', 'next_then_for', 'for_break_for'} <= set(m['classes'].get('ways the reader was walked', ())) and not m['violations']:
        reasons.append('reader walking styles not all used')
    if len(set(m['classes'].get('interpreter options / time zones the round trips were repeated under', ()))) < 6 and not m['violations']:
        reasons.append('round trips not repeated under all interpreter options / time zones')
    if not c.get('composed reader runs'):
        reasons.append('composed readers never run')
    if not c.get('round trips of files over 1 MiB'):
        reasons.append('no file over 1 MiB was round-tripped')
    if max(m['classes'].get('list sizes', [0])) < 80:
        reasons.append('no file of 80 or more records')
    return reasons
