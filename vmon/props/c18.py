"""C18 - parameter extraction returns exactly the requested table's rows and columns."""
import contextlib
import csv
import io
import json
import os
import tempfile

from .. import gen
from ..ref import blocking as refb
from ..ref import param as ref

ID = 'C18'
LEVEL = 'exploration'
ANCHORS = ('IpmParamReader.__init__', 'IpmParamReader.__next__', 'IpmParamReader._get_param_field', 'mci_ipm_param_to_csv')
RULE = ('case = (table layouts, index assignment, interleaved rows of 1..6 tables, representation compressed/expanded, codec, '
        'format, requested table, route class/CSV tool). Rows are built by PLACING generated column values at the configured '
        'positions; the reader must return exactly the requested table\'s rows in file order with timestamp, code and every '
        'column equal to the generated values; compressed and expanded files of the same rows must agree on every column; '
        'a missing index trailer or an unconfigured table must be refused with MciIpmDataError. Distinct by digest. '
        'Non-trivial: the requested table has at least one row.')
ASSUMPTIONS = ['vmon/ref/param.py row builder (validated against the literal rows in the repository tests)',
               'vmon/ref/blocking.py', 'python csv module reads back what the tool wrote']


def prepare(ctx):
    ctx.online_wanted = ('C03', 'C04', 'C05', 'C09')      # shadow-model monitors watch the file layer while this workload runs
    from cardutil import mciipm
    from cardutil.config import config
    from cardutil.cli import mci_ipm_param_to_csv
    ctx.mciipm, ctx.tool = mciipm, mci_ipm_param_to_csv
    ctx.packaged_tables = config['mci_parameter_tables']


def gen_layout(rng, style):
    cols = {}
    pos = 19
    n = 1 if style == 'single' else rng.randint(2, 12)
    for i in range(n):
        if style == 'gapped':
            pos += rng.randint(0, 6)
        w = rng.choice([1, 1, 2, 3, 6, 11, 19, 40])
        cols['col_%02d' % i] = {'start': pos, 'end': pos + w}
        pos += w
    if rng.random() < 0.5:
        # the order in which a caller lists the columns is the CSV column order, not necessarily the positional order
        keys = list(cols)
        rng.shuffle(keys)
        cols = {k: cols[k] for k in keys}
    return cols


def cases(ctx):
    rng = ctx.rng('files')
    for j in range((2400 if ctx.tier == 'quick' else 100000) // ctx.nshards + 1):
        yield {'kind': 'file', 'salt': rng.randint(0, 10 ** 9)}
    for j in range((60 if ctx.tier == 'quick' else 600) // ctx.nshards + 1):
        yield {'kind': 'refusal', 'salt': rng.randint(0, 10 ** 9), 'what': ('no_trailer', 'unconfigured_table', 'empty_layout', 'null_layout')[j % 4], 'route': ('class', 'csv_cli')[(j + ctx.shard) % 2]}


def build(ctx, rng):
    """A whole extract: tables, layouts, index, rows.  Returns a dict describing it."""
    enc = rng.choice(['latin_1', 'cp500'])
    tables = {}
    use_packaged = rng.random() < 0.5
    if use_packaged:
        names = rng.sample(sorted(ctx.packaged_tables), rng.randint(1, 4))
        for t in names:
            tables[t] = ctx.packaged_tables[t]
    n_gen = rng.randint(0 if tables else 1, 3)
    for i in range(n_gen):
        if tables and rng.random() < 0.5:
            # a table id that differs from another one in the file only in its last characters
            near = rng.choice(sorted(tables))
            name = near[:6] + rng.choice(['T2', 'T9', 'X1', 'U1'])
        else:
            name = 'IP9%03dT1' % rng.randint(0, 999)
        tables[name] = gen_layout(rng, rng.choice(['contiguous', 'gapped', 'single']))
    names = sorted(tables)
    subs = rng.sample(range(1, 1000), len(names) + 2)
    index = {}                      # sub id -> table
    for t, s in zip(names, subs):
        index['%03d' % s] = t
    if rng.random() < 0.2:
        index['%03d' % subs[-1]] = names[0]     # a second sub id for the same table
    unindexed_sub = '%03d' % subs[-2]
    sub_of = {}
    for s, t in index.items():
        sub_of.setdefault(t, []).append(s)
    rows = []
    for t in names:
        for r in range(rng.choice([0, 1, 2, 5, 12, 40]) if len(names) > 1 else rng.randint(1, 20)):
            layout = tables[t]
            vals = {c: gen.text(rng, enc, layout[c]['end'] - layout[c]['start'], rng.choice(['alnum', 'digits', 'mixed', 'spaces']))
                    for c in layout}
            row = {'table': t, 'sub': rng.choice(sub_of[t]), 'ts10': gen.text(rng, enc, 10, 'digits'),
                   'ts7': gen.text(rng, enc, 7, 'digits'), 'code': rng.choice('AI'), 'values': vals,
                   'extra': rng.choice([0, 0, 5, 30]), 'cut': None}
            if rng.random() < 0.15 and max(c['end'] for c in layout.values()) > 21:
                # a row whose trailing characters were trimmed: it ends part-way through (or before) its last columns;
                # each column is then whatever its positions still hold
                last = max(c['end'] for c in layout.values())
                row['cut'] = rng.randint(max(20, last - 25), last - 1)
                row['extra'] = 0
            rows.append(row)
    rng.shuffle(rows)
    if len(names) > 1 and rng.random() < 0.03:
        # thousands of rows of another table ahead of the wanted ones (a skip loop must not be recursive or quadratic)
        other = names[0]
        lay = tables[other]
        filler = {'table': other, 'sub': sub_of[other][0], 'ts10': '2' * 10, 'ts7': '2' * 7, 'code': 'A',
                  'values': {c: 'Z' * (lay[c]['end'] - lay[c]['start']) for c in lay}, 'extra': 0, 'cut': None}
        rows = [dict(filler) for _ in range(3000)] + rows
    noise_at = set(rng.sample(range(len(rows) + 1), min(len(rows) + 1, rng.randint(0, 3))))
    return {'enc': enc, 'tables': tables, 'index': index, 'rows': rows, 'unindexed_sub': unindexed_sub, 'noise_at': noise_at}


def records(x, expanded, rng_fill):
    enc = x['enc']
    recs = [ref.index_row(ref.INDEX_TABLE, '001')]
    for s, t in sorted(x['index'].items()):
        recs.append(ref.index_row(t, s, descr=' ' + t + ' DATA'))
    recs.append(ref.trailer_row(len(recs)))
    for i, r in enumerate(x['rows']):
        if i in x['noise_at']:
            recs.append('........xxx....')
            # a row whose sub id / table id is not indexed or not configured
            recs.append(ref.compressed_row(x['unindexed_sub'], '1234567', 'A', {}, {'c': {'start': 19, 'end': 60}}) if not expanded else
                        ref.expanded_row('IP8888T1', '1234567890', 'A', {}, {'c': {'start': 19, 'end': 60}}))
            recs.append(('TRAILER RECORD %s  %08d' % (r['table'], 7)).ljust(80))
        layout = x['tables'][r['table']]
        if expanded:
            text = ref.expanded_row(r['table'], r['ts10'], r['code'], r['values'], layout, extra=r['extra'])
            recs.append(text[:r['cut']] if r.get('cut') else text)
        else:
            text = ref.compressed_row(r['sub'], r['ts7'], r['code'], r['values'], layout, extra=r['extra'])
            recs.append(text[:r['cut'] - 8] if r.get('cut') else text)
    return [s.encode(enc) for s in recs]


def cut_values(r, layout):
    """Column values of a row trimmed at expanded position r['cut']: what the configured positions still hold."""
    if not r.get('cut'):
        return r['values']
    out = {}
    for c, v in r['values'].items():
        keep = max(0, min(len(v), r['cut'] - layout[c]['start']))
        out[c] = v[:keep]
    return out


def judge(ctx, case):
    m = ctx.mciipm
    rng = ctx.rng_global('c18', case['salt'])
    x = build(ctx, rng)
    enc = x['enc']
    blocked = rng.random() < 0.5
    ctx.case_done(case)
    if case['kind'] == 'refusal':
        recs = records(x, False, rng)
        if case['what'] == 'no_trailer':
            recs = [r for r in recs if not r.startswith('TRAILER RECORD IP0000T1'.encode(enc))]
            table = sorted(x['tables'])[0]
        elif case['what'] == 'unconfigured_table':
            table = 'IP7777T1'
        else:
            # the table is named in the configuration, but what stands there is no layout: an empty one, or none at all
            table = sorted(x['tables'])[0]
        tables = dict(x['tables'])
        if case['what'] in ('empty_layout', 'null_layout'):
            tables[table] = {} if case['what'] == 'empty_layout' else None
        s = refb.vbs(recs)
        data = refb.block(s) if blocked else s
        if case.get('route') == 'csv_cli':
            if not getattr(ctx, 'tmpdir', None):
                ctx.tmpdir = tempfile.mkdtemp(prefix='vmon-c18-')
            paths = [os.path.join(ctx.tmpdir, nm) for nm in ('r_in.bin', 'r_out.csv', 'r_cardutil.json')]
            with open(paths[0], 'wb') as f:
                f.write(data)
            with open(paths[2], 'w') as f:
                json.dump({'mci_parameter_tables': tables}, f)
            argv = [paths[0], table, '-o', paths[1], '--in-encoding', enc, '--config-file', paths[2]] + ([] if blocked else ['--no1014blocking'])

            def cli():
                with contextlib.redirect_stdout(io.StringIO()):
                    ctx.tool.cli_run(**vars(ctx.tool.cli_parser().parse_args(argv)))
            kind, val = ctx.call(cli, budget=4000000)
        else:
            kind, val = ctx.call(lambda: list(m.IpmParamReader(io.BytesIO(data), table, encoding=enc, param_config=tables,
                                                              blocked=blocked)), budget=4000000)
        ctx.count('refusal cases: ' + case['what'])
        ctx.count('refusal cases through ' + (case.get('route') or 'class'))
        if kind == 'steps':
            ctx.violation('refusal:step_budget', {'case': case})
        elif kind == 'ok':
            ctx.violation('refusal:%s_accepted' % case['what'], {'case': case, 'rows': len(val)})
        elif not isinstance(val, m.MciIpmDataError):
            ctx.violation('refusal:%s:wrong_exception:%s' % (case['what'], type(val).__name__), {'case': case, 'error': repr(val)[:200]})
        return
    results = {}
    for expanded in (False, True):
        recs = records(x, expanded, rng)
        s = refb.vbs(recs)
        data = refb.block(s) if blocked else s
        for table in sorted(x['tables']):
            want = [ref.expected_dict(r['table'], r['ts10'] if expanded else r['ts7'], r['code'], cut_values(r, x['tables'][table]))
                    for r in x['rows'] if r['table'] == table]
            if any(r.get('cut') for r in x['rows'] if r['table'] == table):
                ctx.count('requests including a row that ends part-way through its columns')
            route = rng.choice(('class', 'class', 'csv_tool', 'csv_cli'))
            ctx.seen('routes', route)
            ctx.seen('representations', 'expanded' if expanded else 'compressed')
            ctx.seen('tables', table if table in ctx.packaged_tables else 'generated')
            ctx.seen('formats/codecs', '%s/%s' % ('1014' if blocked else 'vbs', enc))
            if want:
                ctx.count('requests returning at least one row')
            # a packaged table may be asked for without handing over a layout at all: the reader then uses the packaged one
            # (class without param_config, function with its default config, command with a configuration file that has no
            # parameter tables in it)
            fallback = table in ctx.packaged_tables and x['tables'][table] == ctx.packaged_tables[table] and rng.random() < 0.3
            cfg_kw = {} if fallback else {'param_config': x['tables']}
            if fallback:
                ctx.count('requests leaving the layout to the packaged configuration: ' + route)
            narrowed = dict(case, table=table, expanded=expanded, route=route, layout_left_to_packaged_configuration=fallback)
            if route == 'class':
                kind, got = ctx.call(lambda: list(m.IpmParamReader(io.BytesIO(data), table, encoding=enc, blocked=blocked,
                                                                  expanded=expanded, **cfg_kw)), budget=6000000)
                ctx.count('IpmParamReader runs')
            elif route == 'csv_cli':
                # the command the way the console script runs it: its own argument parser, real files, a configuration file
                if not getattr(ctx, 'tmpdir', None):
                    ctx.tmpdir = tempfile.mkdtemp(prefix='vmon-c18-')
                paths = [os.path.join(ctx.tmpdir, nm) for nm in ('in.bin', 'out.csv', 'cardutil.json')]
                with open(paths[0], 'wb') as f:
                    f.write(data)
                with open(paths[2], 'w') as f:
                    json.dump({'output_data_elements': ['MTI']} if fallback else {'mci_parameter_tables': x['tables']}, f)
                argv = [paths[0], table, '-o', paths[1], '--in-encoding', enc, '--out-encoding', 'utf8', '--config-file', paths[2]]
                argv += ([] if blocked else ['--no1014blocking']) + (['--expanded'] if expanded else [])

                def cli():
                    with contextlib.redirect_stdout(io.StringIO()):
                        ctx.tool.cli_run(**vars(ctx.tool.cli_parser().parse_args(argv)))
                    with open(paths[1], newline='', encoding='utf8') as f:
                        return list(csv.DictReader(f))
                kind, got = ctx.call(cli, budget=6000000)
                ctx.count('CSV command runs through its argument parser')
            else:
                out = io.StringIO()

                def tool():
                    ctx.tool.mci_ipm_param_to_csv(in_param=io.BytesIO(data), out_csv=out, table_id=table, in_encoding=enc,
                                                  no1014blocking=not blocked, expanded=expanded,
                                                  **({} if fallback else {'config': x['tables']}))
                    return list(csv.DictReader(io.StringIO(out.getvalue(), newline='')))
                kind, got = ctx.call(tool, budget=6000000)
                ctx.count('CSV tool runs')
            if kind != 'ok':
                ctx.violation('extract:%s:%s' % (route, 'step_budget' if kind == 'steps' else 'exception:' + type(got).__name__),
                              {'case': narrowed, 'error': repr(got)[:200]})
                return
            if route in ('csv_tool', 'csv_cli'):
                # csv.DictReader gives '' for empty cells and cannot tell '\r' etc.; values here never contain line breaks
                got = [dict(r) for r in got]
            if got != want:
                if len(got) != len(want):
                    mech = 'extract:wrong_rows:%s' % ('too_many' if len(got) > len(want) else 'too_few')
                else:
                    idx = next(i for i, (a, b) in enumerate(zip(got, want)) if a != b)
                    keys = [k for k in want[idx] if got[idx].get(k) != want[idx][k]] or ['<extra keys>']
                    fixed = {'table_id', 'effective_timestamp', 'active_inactive_code'}
                    mech = 'extract:wrong_%s:%s' % ('header_field' if set(keys) & fixed else 'column_value',
                                                   'expanded' if expanded else 'compressed')
                ctx.violation(mech, {'case': narrowed, 'want_rows': len(want), 'got_rows': len(got),
                                     'first_got': repr(got[:1])[:300], 'first_want': repr(want[:1])[:300]})
                return
            results[(table, expanded)] = [{k: v for k, v in d.items() if k not in ('effective_timestamp',)} for d in got]
    for table in x['tables']:
        a, b = results.get((table, False)), results.get((table, True))
        if a is not None and b is not None and a != b:
            ctx.violation('compressed_and_expanded_disagree', {'case': case, 'table': table})
            return
    if len(ctx.samples) < 4 and x['rows']:
        r = x['rows'][0]
        ctx.sample({'case': case, 'enc': enc, 'blocked': blocked, 'tables': {t: len(c) for t, c in x['tables'].items()},
                    'index': x['index'], 'rows': len(x['rows']),
                    'first_row_compressed': ref.compressed_row(r['sub'], r['ts7'], r['code'], r['values'], x['tables'][r['table']])[:80]})


def canaries(ctx):
    layout = {'a': {'start': 19, 'end': 22}, 'b': {'start': 25, 'end': 27}}
    row = ref.expanded_row('IP0001T1', '2024010100', 'A', {'a': 'XYZ', 'b': '12'}, layout)
    ctx.canary('placement is exact', row[19:22] == 'XYZ' and row[25:27] == '12' and row[22:25] == '...')
    crow = ref.compressed_row('007', '2401010', 'I', {'a': 'XYZ', 'b': '12'}, layout)
    ctx.canary('compressed is 8 to the left', crow[11:14] == 'XYZ' and crow[17:19] == '12' and crow[8:11] == '007' and crow[7] == 'I')
    ctx.canary('expected dict carries header fields', ref.expected_dict('T', 'ts', 'A', {'a': '1'}) ==
               {'table_id': 'T', 'effective_timestamp': 'ts', 'active_inactive_code': 'A', 'a': '1'})
    ctx.canary('packaged tables present', set(ctx.packaged_tables) >= {'IP0006T1', 'IP0040T1', 'IP0075T1', 'IP0095T1'})


def require(m):
    reasons = []
    if set(m['classes'].get('routes', ())) != {'class', 'csv_tool', 'csv_cli'}:
        reasons.append('class, function and command routes not all driven')
    for route in ('class', 'csv_cli'):
        if not m['counters'].get('refusal cases through ' + route) and not m['violations']:
            reasons.append('refusals never driven through ' + route)
    for what in ('no_trailer', 'unconfigured_table', 'empty_layout', 'null_layout'):
        if not m['counters'].get('refusal cases: ' + what) and not m['violations']:
            reasons.append('refusal class never driven: ' + what)
    for route in ('class', 'csv_tool', 'csv_cli'):
        if not m['counters'].get('requests leaving the layout to the packaged configuration: ' + route) and not m['violations']:
            reasons.append('packaged table never requested without a layout through ' + route)
    if set(m['classes'].get('representations', ())) != {'compressed', 'expanded'}:
        reasons.append('both representations not driven')
    t = set(m['classes'].get('tables', ()))
    if not {'IP0006T1', 'IP0040T1', 'IP0075T1', 'IP0095T1', 'generated'} <= t:
        reasons.append('not every packaged table and a generated one was requested: %s' % sorted(t))
    if len(set(m['classes'].get('formats/codecs', ()))) < 4:
        reasons.append('formats x codecs not all driven')
    if not m['counters'].get('requests including a row that ends part-way through its columns'):
        reasons.append('no trimmed row driven')
    if not m['counters'].get('requests returning at least one row'):
        reasons.append('no request returned rows')
    return reasons
