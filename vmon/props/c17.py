"""C17 - file inspection recognises writer output: validity, encoding family, blocking."""
import io
import struct

from .. import gen, msgwork
from ..ref import codec as ref

ID = 'C17'
LEVEL = 'exploration'
ANCHORS = ('ipm_info', 'block_1014_check', 'bitmap_check', 'encoding_check')
RULE = ('writer cases = (message list sized to give exactly k blocks, codec, VBS or 1014) written by the real IpmWriter; '
        'ipm_info must say valid, the right encoding family, blocked for every blocked file, and unblocked for an unblocked '
        'file unless its bytes 1012-1013 are both 0x40 (not judged). Block counts 1..12 are each enumerated, plus 50+. Invalid '
        'cases = every input length 0..23, the 24-byte boundary, first length max / max+1, each bit 2..128 alone in the first '
        'bitmap. Distinct by digest. Non-trivial: all.')
ASSUMPTIONS = ['files come from the real IpmWriter under the packaged configuration', 'python codecs']
ASCII_FAMILY = ('latin_1', 'ascii', 'cp1252')
EBCDIC_FAMILY = ('cp500', 'cp037', 'cp1140')


def prepare(ctx):
    ctx.online_wanted = ('C03', 'C04', 'C05', 'C09')      # shadow-model monitors watch the file layer while this workload runs
    from cardutil import mciipm
    from cardutil.config import config
    ctx.mciipm = mciipm
    ctx.maxlen = config.get('MAX_VBS_RECORD_LENGTH', 6000)
    msgwork.set_packaged(config['bit_config'])


def cases(ctx):
    i = 0
    counts = list(range(1, 13)) + [50, 53, 64]
    reps = 1 if ctx.tier == 'quick' else 24
    for rep in range(reps):
        for k in counts:
            for enc in ASCII_FAMILY + EBCDIC_FAMILY:
                for first in ('small', 'large', 'spanning', 'huge', 'letters_then_fill'):
                    for fmt in ('1014', 'vbs'):
                        i += 1
                        if ctx.mine(i):
                            yield {'kind': 'writer', 'blocks': k, 'enc': enc, 'first': first, 'fmt': fmt, 'salt': rep}
    if ctx.shard == 0:
        ctx.exhaustive_subspace('block counts 1..12, 50, 53, 64 x 6 codecs x 5 first-record shapes x {1014, vbs}', len(counts) * 60)
    for n in range(0, 24):
        i += 1
        if ctx.mine(i):
            yield {'kind': 'short', 'n': n}
    for what in ('header24', 'max', 'max+1', 'max+1000000', 'negative_looking'):
        for cfgmax in (None, 3000, 9000, 24):
            i += 1
            if ctx.mine(i):
                yield {'kind': 'length', 'what': what, 'configured_max': cfgmax}
    for cfgmax in (3000, 9000):
        for enc in ('latin_1', 'cp500'):
            for fmt in ('vbs', '1014'):
                i += 1
                if ctx.mine(i):
                    yield {'kind': 'writer_with_configured_max', 'configured_max': cfgmax, 'enc': enc, 'fmt': fmt}
    for bit in range(2, 129):
        for enc in ('latin_1', 'cp500'):
            i += 1
            if ctx.mine(i):
                yield {'kind': 'bit', 'bit': bit, 'enc': enc}
            # the same with bit 1 ("second bitmap present") off - the second half is read whatever bit 1 says - and with
            # ordinary configured elements flagged next to the one under test
            for bit1, company in ((False, False), (True, True), (False, True)):
                i += 1
                if ctx.mine(i):
                    yield {'kind': 'bit', 'bit': bit, 'enc': enc, 'bit1_off': not bit1, 'company': company}
    # "has no configuration" means: has none now.  The configuration is changed at run time (after earlier inspections in
    # this process) - an element given a configuration, a configured one taken away - and the answer must follow
    for bit, how in ((7, 'added'), (8, 'added'), (70, 'added'), (127, 'removed'), (2, 'removed'), (72, 'removed'),
                     (7, 'added:rebound'), (26, 'removed:rebound'), (71, 'added:rebound'), (3, 'removed:rebound')):
        for enc in ('latin_1', 'cp500'):
            i += 1
            if ctx.mine(i):
                yield {'kind': 'bit', 'bit': bit, 'enc': enc, 'live_edit': how}
    if ctx.shard == 0:
        ctx.exhaustive_subspace('every input length 0..23; every bit 2..128 in the first bitmap (alone / next to configured elements, bit 1 on / off) x 2 codecs', 24 + 127 * 2 * 4)


def letters(rng, enc, n):
    return gen.text(rng, enc, n, 'alnum')


def build_messages(ctx, case):
    """Message list whose VBS stream needs exactly case['blocks'] payload blocks."""
    rng = ctx.rng_global('file', case['blocks'], case['enc'], case['first'], case['salt'])
    enc = case['enc']
    k = case['blocks']
    target_lo, target_hi = (k - 1) * 1012 + 1, k * 1012
    msgs = []

    def m(extra_len):
        d = {'MTI': '%04d' % rng.randint(0, 9999) if rng.random() < 0.8 else rng.choice(['0000', '9999', '1240', '0909']),
             'DE2': ''.join(rng.choice('0123456789') for _ in range(16)), 'DE3': '000000',
             'DE4': rng.randint(0, 10 ** 9), 'DE49': '036'}
        if extra_len:
            d['DE72'] = letters(rng, enc, min(999, extra_len))
            if extra_len > 999:
                d['DE111'] = letters(rng, enc, min(999, extra_len - 999))
        return d

    def size(ms):
        return sum(4 + len(ref.encode(x, msgwork.cfg_of('packaged'), enc)) for x in ms) + 4
    fill_style = case['first'] == 'letters_then_fill'
    first_extra = {'small': 0, 'large': 700, 'spanning': 1100, 'huge': 2600 + 300 * (case['salt'] % 5),
                   'letters_then_fill': 1100}[case['first']]
    if k == 1 and case['first'] in ('spanning', 'letters_then_fill'):
        first_extra = 900
    if case['first'] == 'huge':
        k = max(k, 4)
        target_lo, target_hi = (k - 1) * 1012 + 1, k * 1012
        first = m(1998)
        first['DE127'] = letters(rng, enc, min(999, first_extra - 1998))
        first['DE54'] = letters(rng, enc, 120)
        msgs.append(first)
    else:
        msgs.append(m(first_extra))
    if fill_style:
        # every later text field is made of the 0x40 character of the codec (space in EBCDIC, '@' in ASCII): plenty of
        # 0x40 0x40 pairs everywhere except under the first record, which covers offset 1012 with letters
        fill_char = bytes([0x40]).decode(enc)
        plain_m = m

        def m(extra_len, _m=plain_m):          # noqa
            d = _m(extra_len)
            for key in ('DE72', 'DE111'):
                if key in d:
                    d[key] = fill_char * len(d[key])
            d['DE42'] = fill_char * 15
            return d
    guard = 0
    while size(msgs) < target_lo and guard < 500:
        guard += 1
        room = target_hi - size(msgs)
        if room < 60:
            break
        msgs.append(m(max(0, min(room - 70, rng.choice([0, 50, 400, 900, 1500])))))
    while size(msgs) > target_hi and len(msgs) > 1:
        msgs.pop()
    s = size(msgs)
    if not (target_lo <= s <= target_hi):
        # pad the last message to land inside the window
        need = target_lo + 5 - s
        if need > 0:
            last = msgs[-1]
            cur = len(last.get('DE72', ''))
            if cur + need <= 999:
                last['DE72'] = last.get('DE72', '') + letters(rng, enc, need)
            else:
                msgs.append(m(max(0, need - 70)))
    return msgs


def judge(ctx, case):
    m = ctx.mciipm
    kind = case['kind']
    ctx.case_done(case)
    if kind == 'writer':
        enc = case['enc']
        blocked = case['fmt'] == '1014'
        msgs = build_messages(ctx, case)
        f = io.BytesIO()

        def write():
            with m.IpmWriter(f, encoding=enc, blocked=blocked) as w:
                for x in msgs:
                    w.write(dict(x))
            return f.getvalue()
        k0, data = ctx.call(write, budget=4000000)
        if k0 != 'ok':
            ctx.inconclusive_because('writer failed while building a C17 file: %r' % (data,))
            return
        nblocks = len(data) // 1014 if blocked else None
        if not blocked and data[1012:1014] != b'\x40\x40' and any(data[o - 2:o] == b'\x40\x40' for o in range(2028, len(data) + 1, 1014)):
            ctx.count('unblocked files with 0x40 0x40 where a later block trailer would be but not at 1012')
        if len(msgs) and len(data) > 2500 and int.from_bytes(data[:4], 'big') > 2496:
            ctx.count('files whose first record is longer than the 2500-byte sample')
        if blocked:
            ctx.seen('block counts of blocked files inspected', nblocks)
        # the kind of binary stream must not matter: in memory, or buffered with a small buffer (whose peek() shows only a
        # few bytes), or a disk file opened with little buffering
        how = ('bytesio', 'bytesio', 'buffered_1024', 'buffered_16', 'disk_1024')[(len(data) // 7 + len(msgs)) % 5]
        ctx.seen('kinds of stream inspected', how)
        if how == 'bytesio':
            stream = io.BytesIO(data)
        elif how.startswith('buffered'):
            stream = io.BufferedReader(io.BytesIO(data), buffer_size=int(how.split('_')[1]))
        else:
            import os
            import tempfile
            if not getattr(ctx, 'tmpdir17', None):
                ctx.tmpdir17 = tempfile.mkdtemp(prefix='vmon-c17-')
            path = os.path.join(ctx.tmpdir17, 'w.ipm')
            with open(path, 'wb') as fh:
                fh.write(data)
            stream = open(path, 'rb', buffering=1024)
        try:
            k1, info = ctx.call(m.ipm_info, stream, budget=100000)
        finally:
            stream.close()
        ctx.count('ipm_info calls on writer output')
        if k1 != 'ok':
            ctx.violation('writer_file:%s' % ('step_budget' if k1 == 'steps' else 'exception:' + type(info).__name__),
                          {'case': case, 'error': repr(info)})
            return
        detail = {'case': case, 'file_len': len(data), 'blocks': nblocks, 'records': len(msgs), 'info': info}
        if info.get('isValidIPM') is not True:
            ctx.violation('writer_file:reported_invalid', detail)
            return
        fam = 'latin1' if enc in ASCII_FAMILY else 'cp037'
        if info.get('encoding') != fam:
            ctx.violation('writer_file:wrong_encoding_family', detail)
            return
        if blocked:
            if info.get('isBlocked') is not True:
                ctx.violation('writer_file:blocked_file_reported_unblocked:%s' %
                              ('3_or_more_blocks' if nblocks >= 3 else '%d_blocks' % nblocks), detail)
                return
        else:
            if data[1012:1014] == b'\x40\x40':
                ctx.count('unblocked files with 0x40 0x40 at 1012 (blocking answer not judged)')
            elif info.get('isBlocked') is not False:
                ctx.violation('writer_file:unblocked_file_reported_blocked', detail)
                return
        if len(ctx.samples) < 5 and case['blocks'] in (1, 3, 12):
            ctx.sample({'case': case, 'file_len': len(data), 'records': len(msgs), 'info': info})
        return
    if kind == 'short':
        n = case['n']
        good = struct.pack('>I', 40) + b'1240' + bytes.fromhex('c0000000000000000000000000000000')
        data = good[:n]
        k1, info = ctx.call(m.ipm_info, io.BytesIO(data), budget=100000)
        ctx.count('ipm_info calls on invalid input')
        if k1 != 'ok':
            ctx.violation('short_input:%s' % ('step_budget' if k1 == 'steps' else 'exception:' + type(info).__name__),
                          {'case': case, 'error': repr(info)})
        elif info.get('isValidIPM') is not False or not info.get('reason'):
            ctx.violation('short_input:not_reported_invalid_with_reason', {'case': case, 'info': info})
        return
    bm_ok = bytes.fromhex('c0000000000000000000000000000000')
    if kind in ('length', 'writer_with_configured_max') and case.get('configured_max'):
        # "the configured maximum" is whatever the configuration says NOW
        from cardutil.config import config as live
        old = live.get('MAX_VBS_RECORD_LENGTH')
        live['MAX_VBS_RECORD_LENGTH'] = case['configured_max']
        ctx.maxlen_saved, ctx.maxlen = ctx.maxlen, case['configured_max']
        ctx.count('cases run with MAX_VBS_RECORD_LENGTH changed at run time')
        try:
            return judge(ctx, dict(case, configured_max=None, _note='max=%d' % case['configured_max']))
        finally:
            live['MAX_VBS_RECORD_LENGTH'] = old
            ctx.maxlen = ctx.maxlen_saved
    if kind == 'writer_with_configured_max':
        # a writer file whose first record is just under the configured maximum must be valid; ipm_info must agree with the reader
        enc, blocked = case['enc'], case['fmt'] == '1014'
        rng = ctx.rng_global('cfgmax', ctx.maxlen, enc, blocked)
        want = ctx.maxlen - rng.randint(0, 40)
        msg = {'MTI': '1240', 'DE2': '5' * 16}
        body = want - 20 - 18
        for b in (54, 72, 111, 127, 63, 31):
            take = min(999 if b != 31 else 99, body - (3 if b != 31 else 2))
            if take <= 0:
                break
            msg['DE%d' % b] = letters(rng, enc, take)
            body -= take + (3 if b != 31 else 2)
        for b in (48, 62, 123, 124, 125):
            take = min(999, body - 3)
            if take < 8:
                break
            msg['DE%d' % b] = '%04d%03d%s' % (b, take - 7, letters(rng, enc, take - 7))
            body -= take + 3
        f = io.BytesIO()
        try:
            with m.IpmWriter(f, encoding=enc, blocked=blocked) as w:
                w.write(dict(msg))
                w.write({'MTI': '1240', 'DE2': '4' * 16})
        except Exception as ex:  # noqa
            ctx.inconclusive_because('writer failed while building a C17 file: %r' % (ex,))
            return
        data = f.getvalue()
        first = int.from_bytes(data[:4], 'big')
        ctx.seen('first record lengths under a changed maximum', first // 1000 * 1000)
        k1, info = ctx.call(m.ipm_info, io.BytesIO(data), budget=100000)
        ctx.count('ipm_info calls on writer output')
        if k1 != 'ok':
            ctx.violation('writer_file:exception:' + type(info).__name__, {'case': case, 'error': repr(info)})
        elif first <= ctx.maxlen and info.get('isValidIPM') is not True:
            ctx.violation('writer_file:reported_invalid:first_record_within_configured_maximum',
                          {'case': case, 'first_record_length': first, 'configured_max': ctx.maxlen, 'info': info})
        return
    if kind == 'length':
        what = case['what']
        n = {'header24': 40, 'max': ctx.maxlen, 'max+1': ctx.maxlen + 1, 'max+1000000': ctx.maxlen + 10 ** 6,
             'negative_looking': 0xFFFFFFF0}[what]
        data = struct.pack('>I', n) + b'1240' + bm_ok
        if what != 'header24':
            data += b'1' * 30
        k1, info = ctx.call(m.ipm_info, io.BytesIO(data), budget=100000)
        ctx.count('ipm_info calls on invalid input')
        if k1 != 'ok':
            ctx.violation('length:%s' % ('step_budget' if k1 == 'steps' else 'exception:' + type(info).__name__),
                          {'case': case, 'error': repr(info)})
        elif what in ('header24', 'max') and n <= ctx.maxlen:
            if info.get('isValidIPM') is not True:
                ctx.violation('length:%s_rejected' % what, {'case': case, 'info': info})
        elif info.get('isValidIPM') is not False or not info.get('reason'):
            ctx.violation('length:over_maximum_not_reported_invalid_with_reason', {'case': case, 'info': info})
        return
    if kind == 'bit':
        bit = case['bit']
        bm = bytearray(16)
        if not case.get('bit1_off'):
            bm[0] |= 0x80
        else:
            ctx.count('first bitmaps with bit 1 off')
        if case.get('company'):
            bm[0] |= 0x70          # DE2, DE3, DE4
        bm[(bit - 1) // 8] |= 0x80 >> ((bit - 1) % 8)
        data = struct.pack('>I', 60) + '1240'.encode(case['enc']) + bytes(bm) + b'0' * 40
        configured = str(bit) in msgwork.cfg_of('packaged')
        live_edit = case.get('live_edit')
        if live_edit:
            from cardutil.config import config as live
            ctx.call(m.ipm_info, io.BytesIO(data), budget=100000)          # an inspection before the change
            original = live['bit_config']
            rebound = live_edit.endswith(':rebound')
            if rebound:
                # the application loads a configuration and puts it in place of the packaged one (a new dict object)
                import copy
                live['bit_config'] = copy.deepcopy(original)
                ctx.count('inspections after the live configuration was replaced by a new object')
            saved = live['bit_config'].get(str(bit))
            if live_edit.startswith('added'):
                live['bit_config'][str(bit)] = {'field_name': 'added at run time', 'field_type': 'FIXED', 'field_length': 10}
            else:
                del live['bit_config'][str(bit)]
            configured = live_edit.startswith('added')
            ctx.count('inspections after the live configuration was changed')
            try:
                k1, info = ctx.call(m.ipm_info, io.BytesIO(data), budget=100000)
            finally:
                if rebound:
                    live['bit_config'] = original
                elif saved is None:
                    live['bit_config'].pop(str(bit), None)
                else:
                    live['bit_config'][str(bit)] = saved
        else:
            k1, info = ctx.call(m.ipm_info, io.BytesIO(data), budget=100000)
        ctx.count('ipm_info calls on invalid input')
        ctx.seen('first-bitmap bit classes', 'configured' if configured else 'unconfigured')
        if k1 != 'ok':
            ctx.violation('bitmap:%s' % ('step_budget' if k1 == 'steps' else 'exception:' + type(info).__name__),
                          {'case': case, 'error': repr(info)})
        elif configured and not case.get('bit1_off') and info.get('isValidIPM') is not True:
            ctx.violation('bitmap:configured_bit_rejected', {'case': case, 'info': info})
        elif not configured and (info.get('isValidIPM') is not False or not info.get('reason')):
            ctx.violation('bitmap:unconfigured_bit_not_reported_invalid_with_reason', {'case': case, 'info': info})
        return
    raise ValueError(kind)


def canaries(ctx):
    cfg = msgwork.cfg_of('packaged')
    ctx.canary('bit 7 and 128 are unconfigured, bit 2 configured', '7' not in cfg and '128' not in cfg and '2' in cfg)
    case = {'blocks': 3, 'enc': 'latin_1', 'first': 'small', 'salt': 0}
    msgs = build_messages(ctx, case)
    size = sum(4 + len(ref.encode(x, cfg, 'latin_1')) for x in msgs) + 4
    ctx.canary('file builder hits the requested block count', 2 * 1012 < size <= 3 * 1012)
    ctx.canary('EBCDIC digits are not latin-1 numerals', not '1240'.encode('cp500').decode('latin_1').isnumeric())


def require(m):
    reasons = []
    seen = set(m['classes'].get('block counts of blocked files inspected', ()))
    missing = [k for k in list(range(1, 13)) if k not in seen]
    if missing:
        reasons.append('blocked files with these block counts were never inspected: %s' % missing)
    if not any(k >= 50 for k in seen):
        reasons.append('no blocked file of 50+ blocks inspected')
    if not m['counters'].get('unblocked files with 0x40 0x40 where a later block trailer would be but not at 1012'):
        reasons.append('no unblocked file with 0x40 0x40 at a later trailer position (2026, 3040, ...) but not at 1012')
    if not m['counters'].get('files whose first record is longer than the 2500-byte sample'):
        reasons.append('no file whose first record exceeds the inspection sample')
    if not m['counters'].get('cases run with MAX_VBS_RECORD_LENGTH changed at run time'):
        reasons.append('configured maximum never changed at run time')
    if not {'bytesio', 'buffered_1024', 'buffered_16', 'disk_1024'} <= set(m['classes'].get('kinds of stream inspected', ())) and not m['violations']:
        reasons.append('stream kinds not all used: %s' % sorted(m['classes'].get('kinds of stream inspected', ())))
    if not m['counters'].get('inspections after the live configuration was replaced by a new object') and not m['violations']:
        reasons.append('live configuration never replaced by a new object')
    if not m['counters'].get('inspections after the live configuration was changed') and not m['violations']:
        reasons.append('live configuration never changed between inspections')
    if not m['counters'].get('first bitmaps with bit 1 off') and not m['violations']:
        reasons.append('no first bitmap with bit 1 off')
    if set(m['classes'].get('first-bitmap bit classes', ())) != {'configured', 'unconfigured'}:
        reasons.append('bitmap classes not both driven')
    return reasons
