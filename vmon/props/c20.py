"""C20 - CSV to IPM to CSV returns the same rows."""
import csv
import datetime
import io
import os
import shutil
import tempfile

from .. import gen, msgwork
from ..ref import codec as ref

ID = 'C20'
LEVEL = 'exploration'
ANCHORS = ('mci_csv_to_ipm', 'mci_ipm_to_csv', 'dicts_to_csv', '_pytype_to_string', '_get_date_from_string', 'cli_run')
RULE = ('case = (CSV table over the configured output columns, codec, blocking, entry point). The CSV is turned into an IPM '
        'file by mci_csv_to_ipm and extracted again by mci_ipm_to_csv; the output must have the same number of rows in the same '
        'order and, for every supplied (non-empty) MTI / DE / PDS cell, an equal string. Cells are canonical: exact-width fixed '
        'text, plain decimals for int elements, YYYY-MM-DD HH:MM:SS for DE12 (non-canonical date spellings are compared after '
        'normalisation in a separate class). Distinct by digest. Non-trivial: at least one data row.')
ASSUMPTIONS = ['python csv module writes/reads the test tables', 'derived/output-only columns (DE43_*, ICC_DATA), DE48 supplied '
               'together with PDS columns, and values with line breaks or control characters are outside the statement',
               'CSV files on disk are utf8']
CODECS = ('latin_1', 'cp500', 'cp037')


def prepare(ctx):
    ctx.online_wanted = ('C02', 'C03', 'C04', 'C05', 'C08', 'C09')
    from cardutil.config import config
    from cardutil.cli import mci_csv_to_ipm, mci_ipm_to_csv
    ctx.config = config
    ctx.t_in, ctx.t_out = mci_csv_to_ipm, mci_ipm_to_csv
    msgwork.set_packaged(config['bit_config'])
    ctx.tmpdir = tempfile.mkdtemp(prefix='vmon-c20-')
    ctx.cell_style = None


def finish(ctx):
    shutil.rmtree(ctx.tmpdir, ignore_errors=True)


def columns(ctx):
    cfg = ctx.config['bit_config']
    cols = []
    for c in ctx.config['output_data_elements']:
        if c == 'MTI' or c.startswith('PDS'):
            cols.append(c)
        elif c.startswith('DE') and c[2:].isdigit() and c[2:] in cfg:
            cols.append(c)
    return cols


WORDS = ('NULL', 'null', 'None', 'nan', 'NaN', 'N/A', 'n/a', 'TRUE', 'False', 'true', '#N/A', '-', '--', '0', '00', '0.0', '1e5', '+5', '1_000',
         '007', "''", '=1+1', '@x', 'inf', 'Infinity', '2024-01-01', 'DE2', 'MTI')


def printable(rng, enc, n, style):
    if style == 'words':
        # values that spreadsheet / database tooling treats specially; here they are ordinary text
        fits = [w for w in WORDS if len(w) <= n and all(ch in gen.repertoire(enc) for ch in w)]
        if fits:
            w = rng.choice(fits)
            return w if rng.random() < 0.5 else w.ljust(n)
        style = 'alnum'
    if style == 'mostly_spaces':
        return ''.join(' ' if rng.random() < 0.85 else rng.choice('AB1') for _ in range(n))
    if style == 'csvmeta':
        rep = gen.repertoire(enc)
        pool = ''.join(ch for ch in ',,"" \'ab1;|' if ch in rep)
        return ''.join(rng.choice(pool) for _ in range(n))
    s = gen.text(rng, enc, n, style)
    return ''.join(ch if (0x20 <= ord(ch) < 0x7f or ord(ch) >= 0xa0) else 'x' for ch in s)


def cell(ctx, rng, col, enc):
    cfg = ctx.config['bit_config']
    if col == 'MTI':
        return '%04d' % rng.randint(0, 9999)
    if col.startswith('PDS'):
        n = rng.choice([1, 2, 3, 10, 40, rng.randint(1, 120)])
        return printable(rng, enc, n, ctx.cell_style or rng.choice(['alnum', 'mixed', 'csvmeta', 'spaces', 'words']))
    c = cfg[col[2:]]
    pt = c.get('field_python_type')
    if pt in ('int', 'long'):
        r = rng.random()
        top = 10 ** c['field_length'] - 1
        return str(0 if r < 0.15 else top if r < 0.25 else rng.randint(0, top))
    if pt == 'datetime':
        d = gen.gen_datetime(rng, c['field_date_format'])
        return d.strftime('%Y-%m-%d %H:%M:%S')
    if c.get('field_processor') == 'PDS':
        return gen.gen_pds_text(rng, 'ascii', rng.randint(7, 120)) or '0900003abc'
    style = ctx.cell_style or rng.choice(['alnum', 'mixed', 'csvmeta', 'spaces', 'digits', 'words'])
    if c['field_type'] == 'FIXED':
        return printable(rng, enc, c['field_length'], style).ljust(c['field_length'])      # fixed text is exact-width
    w = 2 if c['field_type'] == 'LLVAR' else 3
    return printable(rng, enc, rng.randint(1, min(60, 10 ** w - 1)), style)


def cases(ctx):
    rng = ctx.rng('tables')
    quick = ctx.tier == 'quick'
    # unblocked EBCDIC files full of 0x40 (space) runs through the command entry point: nothing but the caller's flag may
    # decide how the file is read
    for j in range((6 if quick else 40)):
        yield {'salt': rng.randint(0, 10 ** 9), 'rows': rng.choice([12, 30, 50]), 'enc': rng.choice(['cp500', 'cp037']), 'blocked': False,
               'entry': 'cli_run', 'shape': 'space_heavy'}
    # the configuration object handed to the two functions is the caller's: used for one table, then edited in place (DE48
    # stops being a PDS carrier, so PDS columns travel in DE62 onwards), then used for the next table
    for j in range(2 if quick else 8):
        yield {'salt': rng.randint(0, 10 ** 9), 'rows': rng.choice([2, 6]), 'enc': rng.choice(CODECS), 'blocked': bool(j % 2),
               'entry': 'function', 'shape': 'pds_with_others', 'config_edited': True}
    # rows whose record is longer than one 1012-byte payload and ends exactly on a payload boundary of the blocked file
    for j in range((2 if quick else 12)):
        yield {'salt': rng.randint(0, 10 ** 9), 'rows': rng.choice([3, 5, 8]), 'enc': rng.choice(CODECS), 'blocked': True,
               'entry': ('function', 'cli_run')[j % 2], 'shape': 'block_aligned'}
    for j in range((1200 if quick else 20000) // ctx.nshards + 1):
        yield {'salt': rng.randint(0, 10 ** 9), 'rows': rng.choice([1, 2, 5, 12, 50] + ([] if quick else [150, 400])),
               'enc': rng.choice(CODECS), 'blocked': rng.random() < 0.5, 'entry': rng.choice(['function', 'cli_run']),
               'shape': rng.choice(['all_columns', 'subset', 'subset', 'pds_only', 'pds_with_others', 'noncanonical_dates', 'pds_boundary'])}


def build_table(ctx, case):
    rng = ctx.rng_global('c20', case['salt'])
    enc = case['enc']
    cols = columns(ctx)
    pds_cols = [c for c in cols if c.startswith('PDS')]
    de_cols = [c for c in cols if c.startswith('DE')]
    shape = case['shape']
    ctx.cell_style = 'mostly_spaces' if shape == 'space_heavy' else None
    rows = []
    for r in range(case['rows']):
        if shape == 'pds_boundary':
            # two or three PDS cells whose packed length crosses the 999-character carrier boundary
            use = ['MTI'] + rng.sample(pds_cols, rng.choice([2, 3])) + rng.sample([c for c in de_cols if c != 'DE48'], rng.randint(0, 4))
            row = {c: cell(ctx, rng, c, enc) for c in use}
            p = [c for c in use if c.startswith('PDS')]
            total = rng.randint(970, 1010) - 7 * len(p)
            first = rng.randint(1, min(992, total - len(p) + 1))
            rest = total - first
            lens = [first] + ([rest] if len(p) == 2 else [rest // 2, rest - rest // 2])
            for c, n in zip(p, lens):
                row[c] = printable(rng, enc, max(1, min(992, n)), rng.choice(['alnum', 'mixed', 'csvmeta']))
            rows.append(row)
            ctx_boundary = True
            continue
        if shape == 'block_aligned':
            carriers = {'DE%s' % b for b, c in ctx.config['bit_config'].items() if c.get('field_processor') == 'PDS'}
            p = sorted(rng.sample(pds_cols, 3))
            use = ['MTI'] + p + rng.sample([c for c in de_cols if c not in carriers], rng.randint(0, 4))
            row = {c: cell(ctx, rng, c, enc) for c in use}
            for c, n in zip(p, (400, 400, 300)):
                row[c] = printable(rng, enc, n, 'alnum')
            row['_adjust'] = p
            rows.append(row)
            continue
        if shape in ('all_columns', 'space_heavy'):
            use = ['MTI'] + de_cols + (pds_cols if rng.random() < 0.5 else [])
        elif shape == 'pds_only':
            use = ['MTI'] + rng.sample(pds_cols, rng.randint(1, len(pds_cols)))
        elif shape == 'pds_with_others':
            use = ['MTI'] + rng.sample(pds_cols, rng.randint(1, len(pds_cols))) + rng.sample(de_cols, rng.randint(1, 10))
        else:
            use = ['MTI'] + rng.sample(de_cols, rng.randint(1, len(de_cols)))
            if rng.random() < 0.3:
                use += rng.sample(pds_cols, rng.randint(1, 3))
        if any(c.startswith('PDS') for c in use):
            use = [c for c in use if c != 'DE48']          # documented: PDS columns overwrite DE48
        row = {c: cell(ctx, rng, c, enc) for c in use}
        if shape == 'noncanonical_dates' and 'DE12' in cols:
            d = gen.gen_datetime(rng, '%y%m%d%H%M%S')
            row['DE12'] = rng.choice([d.strftime('%Y-%m-%dT%H:%M:%S'), d.replace(hour=0, minute=0, second=0).strftime('%Y-%m-%d'),
                                      d.replace(second=0).strftime('%Y-%m-%d %H:%M')])
        rows.append(row)
    header = [c for c in cols if any(c in r for r in rows)]
    rng.shuffle(header)
    if shape == 'block_aligned':
        align(ctx, rng, enc, header, rows)
    return header, rows


def record_lengths(ctx, header, rows, enc):
    ipm = io.BytesIO()
    ctx.t_in.mci_csv_to_ipm(in_csv=io.StringIO(to_csv_text(header, rows), newline=''), out_ipm=ipm, config=ctx.config,
                            out_encoding=enc, no1014blocking=True)
    data, out, p = ipm.getvalue(), [], 0
    while p + 4 <= len(data):
        n = int.from_bytes(data[p:p + 4], 'big')
        if n == 0:
            break
        out.append(n)
        p += 4 + n
    return out


def align(ctx, rng, enc, header, rows):
    """Lengthen or shorten PDS cells (one character of a cell is one byte of the record) until every second record ends
    exactly where a 1012-byte payload ends.  The unblocked writer is only used as a ruler here."""
    adjust = [row.pop('_adjust') for row in rows]
    try:
        lens = record_lengths(ctx, header, rows, enc)
    except Exception:      # noqa - the judged run will report it
        return
    if len(lens) != len(rows):
        return
    off = 0
    for t, row in enumerate(rows):
        p = adjust[t]
        end = off + 4 + lens[t]
        if t % 2 == 1 or t == len(rows) - 1:
            need = (-end) % 1012                       # grow by this much ...
            third = len(row[p[2]])
            if third + need > 992:
                need -= 1012                           # ... or shrink instead
            if 1 <= third + need <= 992:
                row[p[2]] = (row[p[2]] + printable(rng, enc, max(need, 0), 'alnum'))[:third + need]
                end += need
        off = end
    try:
        lens = record_lengths(ctx, header, rows, enc)
    except Exception:      # noqa
        return
    ends, off = [], 0
    for n in lens:
        off += 4 + n
        ends.append((n, off))
    if any(n > 1012 and o % 1012 == 0 for n, o in ends):
        ctx.count('tables with a record over 1012 bytes ending exactly on a payload boundary')


def to_csv_text(header, rows):
    out = io.StringIO()
    w = csv.DictWriter(out, fieldnames=header, lineterminator='\n')
    w.writeheader()
    for r in rows:
        w.writerow({c: r.get(c, '') for c in header})
    return out.getvalue()


def normal_date(s):
    t = s.replace('T', ' ')
    for fmt in ('%Y-%m-%d %H:%M:%S', '%Y-%m-%d %H:%M', '%Y-%m-%d'):
        try:
            return datetime.datetime.strptime(t, fmt).strftime('%Y-%m-%d %H:%M:%S')
        except ValueError:
            pass
    return s


def judge(ctx, case):
    header, rows = build_table(ctx, case)
    enc, blocked = case['enc'], case['blocked']
    text = to_csv_text(header, rows)
    ctx.case_done(case, nontrivial=bool(rows))
    ctx.seen('entries', case['entry'])
    ctx.seen('codecs/blocking', '%s/%s' % (enc, 'blocked' if blocked else 'unblocked'))
    ctx.seen('shapes', case['shape'])
    for c in header:
        ctx.seen('columns supplied', c)
    if any(ch in text for ch in ',"') and '""' in text:
        ctx.count('tables with quoted cells')

    conf = ctx.config
    if case.get('config_edited'):
        import copy
        conf = copy.deepcopy(ctx.config)
        warm = 'MTI,PDS0023,DE2\n1240,ABC,4444555566667777\n'
        ctx.call(lambda: ctx.t_in.mci_csv_to_ipm(in_csv=io.StringIO(warm, newline=''), out_ipm=io.BytesIO(), config=conf,
                                                 out_encoding=enc, no1014blocking=not blocked), budget=6000000)
        conf['bit_config']['48'].pop('field_processor', None)
        ctx.count('tables converted after the configuration object was edited in place')

    def run():
        if case['entry'] == 'function':
            ipm = io.BytesIO()
            ctx.t_in.mci_csv_to_ipm(in_csv=io.StringIO(text, newline=''), out_ipm=ipm, config=conf, out_encoding=enc,
                                    no1014blocking=not blocked)
            data = ipm.getvalue()
            out = io.StringIO()
            ctx.t_out.mci_ipm_to_csv(in_ipm=io.BytesIO(data), out_csv=out, config=conf, in_encoding=enc, no1014blocking=not blocked)
            return len(data), out.getvalue()
        src = os.path.join(ctx.tmpdir, 'in.csv')
        ipm = os.path.join(ctx.tmpdir, 'mid.ipm')
        dst = os.path.join(ctx.tmpdir, 'out.csv')
        with open(src, 'w', encoding='utf8', newline='') as f:
            f.write(text)
        ctx.t_in.cli_run(in_filename=src, out_filename=ipm, in_encoding='utf8', out_encoding=enc, no1014blocking=not blocked,
                         config_file=None, debug=False)
        rv = ctx.t_out.cli_run(in_filename=ipm, out_filename=dst, in_encoding=enc, out_encoding='utf8', no1014blocking=not blocked,
                               config_file=None, debug=False)
        if rv == -1:
            raise RuntimeError('mci_ipm_to_csv reported an error for a file written by mci_csv_to_ipm')
        with open(dst, 'r', encoding='utf8', newline='') as f:
            return os.path.getsize(ipm), f.read()
    kind, val = ctx.call(run, budget=60000000)
    ctx.count('CSV->IPM->CSV runs')
    if kind != 'ok':
        ctx.violation('pipeline:%s' % ('step_budget' if kind == 'steps' else 'exception:' + type(val).__name__),
                      {'case': case, 'error': repr(val)[:300]})
        return
    ipm_len, out_text = val
    if case['shape'] == 'space_heavy':
        ctx.count('unblocked EBCDIC files made mostly of spaces through cli_run')
    got = list(csv.DictReader(io.StringIO(out_text, newline='')))
    if len(got) != len(rows):
        ctx.violation('row_count_differs', {'case': case, 'rows_in': len(rows), 'rows_out': len(got)})
        return
    cfg = ctx.config['bit_config']
    for idx, (want, g) in enumerate(zip(rows, got)):
        for c, v in want.items():
            if v == '':
                continue
            out_v = g.get(c)
            if case['shape'] == 'noncanonical_dates' and c == 'DE12':
                v = normal_date(v)
            if out_v != v:
                if c == 'MTI' or c.startswith('PDS'):
                    kc = c[:3]
                else:
                    kc = cfg[c[2:]].get('field_python_type', 'text') + ('_zero' if v == '0' else '')
                ctx.violation('cell_changed:%s' % kc, {'case': case, 'row': idx, 'column': c, 'in': v, 'out': out_v})
                return
    if len(ctx.samples) < 4 and len(rows) <= 5:
        ctx.sample({'case': case, 'header': header, 'first_row': {k: v[:40] for k, v in rows[0].items()}, 'ipm_bytes': ipm_len})


def canaries(ctx):
    cols = columns(ctx)
    ctx.canary('supplied columns exclude derived ones', 'DE43_NAME' not in cols and 'ICC_DATA' not in cols and 'DE4' in cols
               and 'PDS0023' in cols)
    ctx.canary('date normalisation', normal_date('2024-02-29T01:02:03') == '2024-02-29 01:02:03' and normal_date('2024-02-29') == '2024-02-29 00:00:00')
    t = to_csv_text(['MTI', 'DE2'], [{'MTI': '1240', 'DE2': 'a,"b" '}])
    ctx.canary('csv quoting round trips in the harness', list(csv.DictReader(io.StringIO(t, newline='')))[0]['DE2'] == 'a,"b" ')


def require(m):
    reasons = []
    if set(m['classes'].get('entries', ())) != {'function', 'cli_run'}:
        reasons.append('both entry points not driven')
    if not m['counters'].get('tables converted after the configuration object was edited in place') and not m['violations']:
        reasons.append('no table converted after an in-place edit of the configuration object')
    if not m['counters'].get('tables with a record over 1012 bytes ending exactly on a payload boundary') and not m['violations']:
        reasons.append('no blocked table with a long record ending exactly on a payload boundary')
    if not m['counters'].get('unblocked EBCDIC files made mostly of spaces through cli_run') and not m['violations']:
        reasons.append('space-heavy unblocked EBCDIC files never run through cli_run')
    if len(set(m['classes'].get('codecs/blocking', ()))) < 6:
        reasons.append('codecs x blocking not all driven')
    cols = set(m['classes'].get('columns supplied', ()))
    for need in ('MTI', 'DE2', 'DE4', 'DE12', 'DE26', 'DE48', 'DE71', 'DE100', 'PDS0023', 'PDS0165'):
        if need not in cols:
            reasons.append('column never supplied: ' + need)
    return reasons
