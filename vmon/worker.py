"""
One shard:  python -B -m vmon.worker <Cxx> <tier> <seed> <shard> <nshards> <outfile> <timeout>
Writes a JSON dump of what its monitors observed.  Prints nothing that the parent relays as a verdict.
"""
import contextlib
import faulthandler
import importlib
import io
import json
import os
import sys


def main():
    prop_id, tier, seed, shard, nshards, out, timeout = sys.argv[1:8]
    os.environ['VERIF_SEED'] = seed
    faulthandler.dump_traceback_later(max(5, int(timeout) - 2), exit=False)
    from . import breadcrumb, core
    breadcrumb.open_for(out + '.crumb')
    mod = importlib.import_module('vmon.props.' + prop_id.lower())
    ctx = core.Ctx(prop_id, tier, int(seed), int(shard), int(nshards))
    cap = getattr(mod, 'TIME_CAP', {}).get(tier)
    sink = io.StringIO()
    with contextlib.redirect_stdout(sink):
        dump = core.run_shard(mod, ctx, time_cap=cap)
    tmp = out + '.tmp'
    with open(tmp, 'w') as f:
        json.dump(dump, f, default=repr)
    os.replace(tmp, out)


if __name__ == '__main__':
    main()
