"""Parent side of optchild.py: run a job list in a child interpreter started with the given options; return its answers."""
import json
import os

from . import cpuguard, env

# -bb and warnings turned into errors were option sets for a while and were withdrawn (DESIGN.md Appendix B): no statement
# quantifies over them, and property-preserving rewrites trip them (a bytes value in a log line, a deprecated stdlib call)
OPTION_SETS = (('-O',), ('-OO',), ('-X', 'utf8'), ('-I',))


def run(ctx, jobs, options, tmpdir, tz=None, cpu_seconds=120):
    path = os.path.join(tmpdir, 'optjobs-%d.json' % os.getpid())
    with open(path, 'w') as f:
        json.dump(jobs, f)
    e = dict(os.environ, PYTHONDONTWRITEBYTECODE='1', VERIF_REPO=env.REPO)
    e.pop('CARDUTIL_CONFIG', None)
    e.pop('PYTHONWARNINGS', None)
    e.pop('PYTHONPATH', None)
    if tz:
        e['TZ'] = tz
    status, p = cpuguard.run([env.PYTHON, '-B'] + list(options) + [os.path.join(env.VERIF_DIR, 'vmon', 'optchild.py'), path],
                             env=e, cwd=tmpdir, cpu_seconds=cpu_seconds)
    answers, at, done = {}, None, False
    for ln in p.stdout.splitlines():
        try:
            o = json.loads(ln)
        except ValueError:
            continue
        if 'at' in o:
            at = o['at']
        elif 'done' in o:
            done = True
        elif 'i' in o:
            answers[o['i']] = o
    return status, answers, at, done, p.stderr[-400:]
