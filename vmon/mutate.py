"""
Structured fault enumerators over well-formed wire images.

layout(data, cfg, enc, hex_bitmap) walks a message built by the reference encoder and returns the byte offsets that
matter to a decoder: bitmap bytes, length-prefix bytes, PDS tag / sub-length bytes, ICC tag / length bytes.  The
enumerators then produce (description, mutated bytes) pairs.  Pure functions; nothing here touches cardutil.
"""
from .ref import codec as ref

NEG_2 = ['-%d' % k for k in range(1, 10)]
NEG_3 = ['-%02d' % k for k in range(1, 100)] + ['-%d ' % k for k in (1, 7, 9)] + [' -%d' % k for k in (1, 7, 8, 9)]


class Layout:
    def __init__(self):
        self.header = 0
        self.bitmap = []          # absolute offsets of bitmap bytes
        self.prefixes = []        # (bit, abs offset, width, declared length, abs end of field)
        self.pds_len = []         # (carrier bit, abs offset of the 3-char sub-length, value length)
        self.pds_tag = []         # (carrier bit, abs offset of the 4-char tag)
        self.icc = []             # (bit, abs offset, 'tag'|'len')
        self.fields = []          # (bit, abs start incl. prefix, abs end)
        self.total = 0


def layout(data, cfg, enc, hex_bitmap):
    out, tiling, _, _ = ref.decode_lenient(data, cfg, enc, hex_bitmap)
    L = Layout()
    L.header = 36 if hex_bitmap else 20
    L.bitmap = list(range(4, L.header))
    L.total = len(data)
    for bit, p, w, n in tiling:
        a = L.header + p
        L.fields.append((bit, a, a + w + n))
        if w:
            L.prefixes.append((bit, a, w, n, a + w + n))
        c = cfg[str(bit)]
        proc = c.get('field_processor')
        body = a + w
        if proc == 'PDS':
            q = 0
            text = data[body:body + n].decode(enc)
            while q + 7 <= len(text):
                try:
                    ln = int(text[q + 4:q + 7])
                except ValueError:
                    break
                L.pds_tag.append((bit, body + q))
                L.pds_len.append((bit, body + q + 4, ln))
                q += 7 + ln
        elif proc == 'ICC':
            raw = data[body:body + n]
            q = 0
            while q < len(raw):
                L.icc.append((bit, body + q, 'tag'))
                if raw[q:q + 1] in (b'\x9f', b'\x5f'):
                    L.icc.append((bit, body + q + 1, 'tag'))
                    q += 2
                else:
                    q += 1
                if q >= len(raw):
                    break
                L.icc.append((bit, body + q, 'len'))
                q += 1 + raw[q]
    return L


def sub(data, off, new):
    return data[:off] + new + data[off + len(new):]


def byte_sweeps(data, L, values=range(256)):
    """Every structural byte x every value."""
    sites = [('bitmap', o) for o in L.bitmap]
    for bit, a, w, n, end in L.prefixes:
        sites += [('prefix:DE%d' % bit, a + k) for k in range(w)]
    for bit, o, ln in L.pds_len:
        sites += [('pds_sublength:DE%d' % bit, o + k) for k in range(3)]
    for bit, o in L.pds_tag:
        sites += [('pds_tag:DE%d' % bit, o + k) for k in range(4)]
    for bit, o, what in L.icc:
        sites.append(('icc_%s:DE%d' % (what, bit), o))
    for what, o in sites:
        orig = data[o]
        for v in values:
            if v != orig:
                yield '%s@%d=%02x' % (what, o, v), data[:o] + bytes([v]) + data[o + 1:]


def length_rewrites(data, L, enc):
    """Every length field rewritten to negative spellings, zero, and values at / just over / far over what remains."""
    for bit, a, w, n, end in L.prefixes:
        remain = L.total - (a + w)
        words = (NEG_2 if w == 2 else NEG_3) + ['0' * w]
        for v in {remain - 1, remain, remain + 1, remain + 100, 10 ** w - 1, n - 1, n + 1}:
            if 0 <= v < 10 ** w:
                words.append('%0*d' % (w, v))
        words += [' ' * w, '+' + '1' * (w - 1), '1' + '_' * (w - 2) + '1' if w == 3 else '1_', 'x' * w, '٣' * 0 + '1' * (w - 1) + ' ']
        for word in words:
            try:
                raw = word.encode(enc)
            except UnicodeError:
                continue
            if len(raw) != w:
                continue
            yield 'prefix:DE%d:=%r' % (bit, word), sub(data, a, raw)
    for bit, o, ln in L.pds_len:
        for word in NEG_3 + ['000', '999', '%03d' % max(0, ln - 1), '%03d' % min(999, ln + 1), '   ', 'abc', '+07', '1_0', ' 07']:
            try:
                raw = word.encode(enc)
            except UnicodeError:
                continue
            if len(raw) == 3:
                yield 'pds_sublength:DE%d:=%r' % (bit, word), sub(data, o, raw)
    for bit, o, what in L.icc:
        if what == 'len':
            for v in (0, 1, 0x7f, 0x80, 0xff):
                yield 'icc_len:DE%d:=%d' % (bit, v), data[:o] + bytes([v]) + data[o + 1:]


def truncations(data):
    for t in range(len(data)):
        yield 'truncate@%d' % t, data[:t]


def extensions(data):
    for extra in (b'\x00', b' ', b'0', b'00', b'123', b'\x40\x40'):
        yield 'extend+%s' % extra.hex(), data + extra


def multipoint(data, rng, count):
    alphabet = b'0123456789-+_ \x00\x40\xff'
    for k in range(count):
        b = bytearray(data)
        ops = []
        for _ in range(rng.randint(1, 4)):
            op = rng.choice(['sub', 'flip', 'ins', 'del', 'splice'])
            if not b:
                break
            pos = rng.randrange(len(b))
            if op == 'sub':
                b[pos] = rng.randrange(256)
            elif op == 'flip':
                b[pos] ^= 1 << rng.randrange(8)
            elif op == 'ins':
                b[pos:pos] = bytes(rng.choice(alphabet) for _ in range(rng.randint(1, 3)))
            elif op == 'del':
                del b[pos:pos + rng.randint(1, 3)]
            else:
                b[pos:pos + rng.randint(1, 3)] = bytes(rng.choice(alphabet) for _ in range(rng.randint(1, 3)))
            ops.append('%s@%d' % (op, pos))
        yield 'multi:' + ','.join(ops), bytes(b)


def bitmap_flips(data, L):
    for o in L.bitmap:
        for bit in range(8):
            yield 'bitflip@%d.%d' % (o, bit), data[:o] + bytes([data[o] ^ (0x80 >> bit)]) + data[o + 1:]


# ---------------------------------------------------------------------------------------------------------------------
# C08: neighbours of the valid language
# ---------------------------------------------------------------------------------------------------------------------
def prefix_digit_replacements(data, L, enc):
    """Every length-prefix digit replaced by sign, space, underscore, letter, every decimal digit and non-ASCII digits."""
    from . import gen
    rep = gen.repertoire(enc)
    odd = [c for c in rep if c.isdigit() and c not in '0123456789'][:12]
    chars = list('-+ _x0123456789') + odd
    for bit, a, w, n, end in L.prefixes:
        for k in range(w):
            for ch in chars:
                try:
                    raw = ch.encode(enc)
                except UnicodeError:
                    continue
                if len(raw) == 1 and raw[0] != data[a + k]:
                    yield 'prefixdigit:DE%d[%d]=%r' % (bit, k, ch), data[:a + k] + raw + data[a + k + 1:]


def prefix_rewrites(data, L, enc):
    for bit, a, w, n, end in L.prefixes:
        remain = L.total - (a + w)
        vals = {0, n - 1, n + 1, remain, remain + 1, L.total, 10 ** w - 1, max(0, remain - 1)}
        words = ['%0*d' % (w, v) for v in sorted(vals) if 0 <= v < 10 ** w]
        words += NEG_2 if w == 2 else NEG_3[:99]
        for word in words:
            raw = word.encode(enc)
            if len(raw) == w and raw != data[a:a + w]:
                yield 'prefix:DE%d:=%r' % (bit, word), sub(data, a, raw)


def logical_bitmap_flips(data, L, hex_bitmap):
    """Each of the 128 bitmap bits flipped, whatever the rendering."""
    if hex_bitmap:
        bm = bytearray(bytes.fromhex(data[4:36].decode('ascii')))
    else:
        bm = bytearray(data[4:20])
    for bit in range(1, 129):
        b2 = bytearray(bm)
        b2[(bit - 1) // 8] ^= 0x80 >> ((bit - 1) % 8)
        head = bytes(b2).hex().encode('ascii') if hex_bitmap else bytes(b2)
        yield 'bitmapbit:%d' % bit, data[:4] + head + data[L.header:]
    # bit 1 ("a second bitmap follows") cleared together with a change in the second half: the second half is always there
    # and always read, so elements flagged in it still have to be present, and unflagged ones absent, whatever bit 1 says
    upper = [a for (bit, a, end) in L.fields if bit > 64]
    for bit in range(65, 129):
        b2 = bytearray(bm)
        b2[0] &= 0x7f
        b2[(bit - 1) // 8] ^= 0x80 >> ((bit - 1) % 8)
        head = bytes(b2).hex().encode('ascii') if hex_bitmap else bytes(b2)
        yield 'bitmapbits:1off+%d' % bit, data[:4] + head + data[L.header:]
        if upper:
            # ... and with the bytes of every element above 64 taken away while their bits stay flagged
            yield 'bitmapbits:1off+%d:upper_bytes_removed' % bit, data[:4] + head + data[L.header:min(upper)]
    if upper:
        b2 = bytearray(bm)
        b2[0] &= 0x7f
        head = bytes(b2).hex().encode('ascii') if hex_bitmap else bytes(b2)
        yield 'bitmapbits:1off:upper_bytes_removed', data[:4] + head + data[L.header:min(upper)]


def zero_length_fields(data, L, enc):
    """Each variable element emptied: prefix of zeros, no content - still a well-framed message."""
    for bit, a, w, n, end in L.prefixes:
        yield 'zero_length:DE%d' % bit, data[:a] + ('0' * w).encode(enc) + data[end:]


def hex_bitmap_spellings(data, hex_bitmap):
    """Bitmap texts that a number parser tolerates but that are not 32 hex digits: 0x / 0X prefixes, signs, blanks, underscores."""
    if not hex_bitmap or len(data) < 36:
        return
    for pos, words in ((4, (b'0x', b'0X', b'0b', b'0o', b'+f', b'-0', b' f', b'  ', b'0_', b'_0')), (34, (b'f ', b'_f', b'f_', b'\n0', b'0\n'))):
        for wd in words:
            if data[pos:pos + 2] != wd:
                yield 'hexbitmap@%d=%r' % (pos - 4, wd.decode('latin_1')), data[:pos] + wd + data[pos + 2:]
    for pos in (5, 19, 20, 35):
        for ch in (b'_', b' ', b'x', b'+'):
            yield 'hexbitmap@%d=%r' % (pos - 4, ch.decode()), data[:pos] + ch + data[pos + 1:]
    # whole hex pairs replaced by white space (a lenient hex parser skips them and comes back with fewer than 16 bytes):
    # each pair in turn, the last two, three and eight pairs, and the whole bitmap
    for wd in (b'  ', b'\t\t', b'\n\n', b'\r\n', b' \t'):
        for k in range(16):
            pos = 4 + 2 * k
            yield 'hexbitmap:pair%d=%r' % (k, wd.decode()), data[:pos] + wd + data[pos + 2:]
        for tail in (2, 3, 8, 16):
            yield 'hexbitmap:last%dpairs=%r' % (tail, wd.decode()), data[:36 - 2 * tail] + wd * tail + data[36:]


def edge_trims(data):
    for k in (1, 2, 3):
        yield 'truncate-%d' % k, data[:-k]
        yield 'extend+%d' % k, data + b'0' * k
        yield 'extend+%dsp' % k, data + b' ' * k


def _is_text(c):
    return c.get('field_python_type') in (None, '', 'string')


def bitmap_for(bits, hex_bitmap):
    bm = bytearray(16)
    bm[0] |= 0x80
    for bit in bits:
        bm[(bit - 1) // 8] |= 0x80 >> ((bit - 1) % 8)
    return bytes(bm).hex().encode('ascii') if hex_bitmap else bytes(bm)


def constructed_overlaps(cfg, enc, hex_bitmap, mti='1240'):
    """
    Messages that a decoder which tolerates a negative length would accept as a complete tiling:
    for a variable text element e, a fixed text element f after it in bit order, optionally a fixed element p before it,
    and every negative value -k the prefix can spell:  bytes(p) | prefix(-k) | (width(f) - k) filler bytes.
    """
    bits = sorted(int(b) for b in cfg if 2 <= int(b) <= 127)
    var = [b for b in bits if cfg[str(b)]['field_type'] in ('LLVAR', 'LLLVAR') and _is_text(cfg[str(b)])
           and cfg[str(b)].get('field_processor') in (None, 'DE43')]
    fixed = [b for b in bits if cfg[str(b)]['field_type'] == 'FIXED' and _is_text(cfg[str(b)])
             and not cfg[str(b)].get('field_processor')]
    for e in var:
        w = 2 if cfg[str(e)]['field_type'] == 'LLVAR' else 3
        words = ['-%d' % k for k in range(1, 10)] if w == 2 else ['-%02d' % k for k in range(1, 100)]
        if w == 3:
            # int() also takes blanks (any Unicode white space) around the sign: ' -5', '-5 ', tab, line feed, no-break space ...
            words += ['%s-%d' % (sp, k) for sp in ' \t\n\r\x0b\x0c\x1c\x1f\x85\xa0' for k in range(1, 10)]
            words += ['-%d%s' % (k, sp) for sp in ' \t\n\xa0' for k in range(1, 10)]
        for f in fixed:
            if f <= e:
                continue
            fw = cfg[str(f)]['field_length']
            for p in [None] + [x for x in fixed if x < e][:2]:
                pw = cfg[str(p)]['field_length'] if p else 0
                for word in words:
                    k = int(''.join(ch for ch in word if ch in '0123456789'))
                    if fw - k < 0 or (k > w and k - w > pw):
                        continue
                    try:
                        body = ('P' * pw + word + 'F' * (fw - k)).encode(enc)
                    except UnicodeError:
                        continue
                    present = [x for x in (p, e, f) if x]
                    yield ('overlap:DE%d%s->DE%d:%s' % (e, '(after DE%d)' % p if p else '', f, word),
                           mti.encode(enc) + bitmap_for(present, hex_bitmap) + body)


WORDS = ('NaN', 'nan', 'sNaN', '-NaN', 'Inf', '-Inf', 'Infinity', 'inf', '1E+9', '1E+99999', '1e-9999999', '-0', '+1', '1_0', ' 1', '1 ', '0x10',
         '1,5', '1.5.', '..', '--', '1e', 'e1', '٣', '0' * 40, '9' * 40, '000000', '999999', '240229', '240230', '241301', '000000000000',
         '999999999999', '991231235960', '')


def typed_content_words(data, L, cfg, enc):
    """
    The CONTENT of every typed element (int, long, decimal, datetime) replaced by words that number / date parsers treat
    specially: NaN, Infinity, exponents, signs, separators, impossible dates.  Length prefixes are rewritten to match, so
    the framing stays intact and the word reaches the conversion.
    """
    for bit, a, end in L.fields:
        c = cfg[str(bit)]
        if c.get('field_python_type') not in ('int', 'long', 'decimal', 'datetime'):
            continue
        w = 0 if c['field_type'] == 'FIXED' else (2 if c['field_type'] == 'LLVAR' else 3)
        width = end - a - w
        for word in WORDS:
            try:
                raw = word.encode(enc)
            except UnicodeError:
                continue
            if w == 0:
                for variant in (raw[:width].ljust(width, b' '.decode('ascii').encode(enc)), raw[:width].rjust(width, '0'.encode(enc))):
                    if len(variant) == width:
                        yield 'typed:DE%d:=%r' % (bit, word[:12]), data[:a] + variant + data[end:]
            elif len(raw) < 10 ** w:
                yield 'typed:DE%d:=%r' % (bit, word[:12]), data[:a] + ('%0*d' % (w, len(raw))).encode(enc) + raw + data[end:]


ICC_TAILS = [bytes.fromhex(h) for h in ('9f', '5f', '9f81', '5fff', '9f8182', '9fffffff', '1f', '1f81', '1f8180', 'df81', 'ff', 'ffff', '9f02',
                                        '9f0281', '9f02ff', '8281', '82ff', '00', '0000', '9f00', '5f2a', '5f2a02', '5f2a0200')]


def icc_tails(data, L, cfg, enc):
    """
    The ICC element cut after each of its TLVs and continued with a crafted ending: a tag prefix with nothing behind it,
    multi-byte tag markers running to the end of the element, a length byte larger than what is left.  The LLVAR/LLLVAR
    prefix is rewritten so that the message stays well framed and the ending reaches the TLV walker.
    """
    for bit, a, end in L.fields:
        c = cfg[str(bit)]
        if c.get('field_processor') != 'ICC' or c['field_type'] == 'FIXED':
            continue
        w = 2 if c['field_type'] == 'LLVAR' else 3
        body = data[a + w:end]
        cuts = sorted({0, len(body)} | {o - (a + w) for (b2, o, what) in L.icc if b2 == bit and what == 'tag' and o >= a + w})
        for cut in cuts:
            for tail in ICC_TAILS:
                new = body[:cut] + tail
                if len(new) >= 10 ** w:
                    continue
                yield 'icc_tail:DE%d@%d+%s' % (bit, cut, tail.hex()), data[:a] + ('%0*d' % (w, len(new))).encode(enc) + new + data[end:]


def icc_long_form_lengths(data, L, cfg, enc):
    """
    BER long-form lengths in the ICC element: each TLV's length byte replaced by 0x81..0x84 followed by that many length
    bytes, whose value - read unsigned, or signed by a careless reader - points back at the tag, back at the length byte,
    nowhere, just ahead, or far past the end.  Written over the bytes that follow and, separately, inserted before them;
    the element's own prefix is rewritten so the message stays well framed and the bytes reach the TLV walker.
    """
    for bit, a, end in L.fields:
        c = cfg[str(bit)]
        if c.get('field_processor') != 'ICC' or c['field_type'] == 'FIXED':
            continue
        w = 2 if c['field_type'] == 'LLVAR' else 3
        body = data[a + w:end]
        tags = sorted(o - (a + w) for (b2, o, what) in L.icc if b2 == bit and what == 'tag')
        for (b2, o, what) in L.icc:
            if b2 != bit or what != 'len':
                continue
            ln = o - (a + w)
            tag_start = max([t for t in tags if t < ln and (t == 0 or t - 1 not in tags)] or [0])
            for n in (1, 2, 3, 4):
                hdr = ln - tag_start + 1 + n
                top = 1 << (8 * n)
                for label, v in (('to_tag', top - hdr), ('to_len', top - (1 + n)), ('minus1', top - 1), ('zero', 0), ('one', 1),
                                 ('max_pos', top // 2 - 1), ('min_neg', top // 2), ('rest', max(0, len(body) - ln - 1 - n))):
                    field = bytes([0x80 | n]) + (v % top).to_bytes(n, 'big')
                    for how, new in (('over', body[:ln] + field + body[ln + 1 + n:]), ('ins', body[:ln] + field + body[ln + 1:])):
                        if len(new) >= 10 ** w or (how == 'over' and len(body) < ln + 1 + n):
                            continue
                        yield ('icc_long_len:DE%d@%d:%d:%s:%s' % (bit, ln, n, label, how),
                               data[:a] + ('%0*d' % (w, len(new))).encode(enc) + new + data[end:])


def short_headers(data, hex_bitmap):
    """
    Messages that end inside their own header: the MTI (whole or cut) followed by 0..15 bitmap bytes (0..31 hex characters)
    that flag no element at all, or only bit 1 - nothing behind them for a field parser to stumble over first.
    """
    mti = data[:4]
    yield 'short_header:empty', b''
    for n in (1, 2, 3):
        yield 'short_header:mti_cut_%d' % n, mti[:n]
    width = 32 if hex_bitmap else 16
    for n in range(0, width):
        for first in ((b'0', b'8') if hex_bitmap else (b'\x00', b'\x80')):
            zero = b'0' if hex_bitmap else b'\x00'
            bm = (first + zero * width)[:n]
            yield 'short_header:bitmap_%d_bytes:%s' % (n, first.hex()), mti + bm
